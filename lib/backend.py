"""lib/backend.py -- scripted fake backends for the real-server harness (lib/srv.py).

HttpBackend: an HTTP/1.x origin server on a loopback port whose every response is a script registered by the test:
a list of (bytes, delay_before_seconds) segments followed by 'close' | 'keep' | 'rst' | 'half'.  It records every request it
receives verbatim (head and body), so tests of the forward direction (C09) can compare what lighttpd sent with what the
client sent.  The script is selected by the 'id=<n>' token in the request-target."""
import re, socket, struct, threading, time


class HttpBackend:
    def __init__(self):
        self.sock = socket.socket(); self.sock.setsockopt(socket.SOL_SOCKET, socket.SO_REUSEADDR, 1)
        self.sock.bind(("127.0.0.1", 0)); self.sock.listen(64)
        self.port = self.sock.getsockname()[1]
        self.scripts = {}; self.requests = []; self.lock = threading.Lock(); self.stop_flag = False
        self.early = set()          # script ids answered right after the request head, without reading the body
        self.th = threading.Thread(target=self._accept, daemon=True); self.th.start()

    def script(self, sid, segments, end="close"):
        self.scripts[sid] = (segments, end)

    def _accept(self):
        self.sock.settimeout(0.2)
        while not self.stop_flag:
            try: c, _ = self.sock.accept()
            except socket.timeout: continue
            except OSError: break
            threading.Thread(target=self._serve, args=(c,), daemon=True).start()

    def _serve(self, c):
        c.settimeout(5.0)
        buf = b""
        try:
            while True:
                while b"\r\n\r\n" not in buf:
                    d = c.recv(65536)
                    if not d: return
                    buf += d
                head, _, rest = buf.partition(b"\r\n\r\n")
                em = re.search(rb"id=(\d+)", head.split(b"\r\n", 1)[0])
                if em and int(em.group(1)) in self.early:
                    segs, end = self.scripts.get(int(em.group(1)), ([(b"HTTP/1.1 200 OK\r\nContent-Length: 2\r\n\r\nok", 0)], "close"))
                    for data, delay in segs:
                        if delay: time.sleep(delay)
                        c.sendall(data)
                    time.sleep(0.3)      # keep the socket open a little: the response, not a reset, reaches lighttpd first
                    return
                m = re.search(rb"(?im)^content-length:[ \t]*(\d+)", head)
                te = re.search(rb"(?im)^transfer-encoding:[ \t]*chunked", head)
                body = b""
                if m:
                    n = int(m.group(1))
                    while len(rest) < n:
                        d = c.recv(65536)
                        if not d: break
                        rest += d
                    body, buf = rest[:n], rest[n:]
                elif te:
                    raw = rest
                    while b"0\r\n\r\n" not in raw:
                        d = c.recv(65536)
                        if not d: break
                        raw += d
                    k = raw.find(b"0\r\n\r\n")
                    body, buf = (raw[:k + 5], raw[k + 5:]) if k >= 0 else (raw, b"")
                else:
                    buf = rest
                line = head.split(b"\r\n", 1)[0]
                with self.lock: self.requests.append((head + b"\r\n\r\n", body))
                sm = re.search(rb"id=(\d+)", line)
                segs, end = self.scripts.get(int(sm.group(1)) if sm else -1, ([(b"HTTP/1.1 404 Not Found\r\nContent-Length: 0\r\n\r\n", 0)], "close"))
                for data, delay in segs:
                    if delay: time.sleep(delay)
                    try: c.sendall(data)
                    except OSError: return
                if end == "keep": continue
                if end == "rst":
                    c.setsockopt(socket.SOL_SOCKET, socket.SO_LINGER, struct.pack("ii", 1, 0))
                elif end == "half":
                    try: c.shutdown(socket.SHUT_WR)
                    except OSError: pass
                    time.sleep(0.3)
                return
        except (socket.timeout, OSError):
            return
        finally:
            try: c.close()
            except OSError: pass

    def stop(self):
        self.stop_flag = True
        try: self.sock.close()
        except OSError: pass


def chunk_encode(blocks, upper=False, ext=False):
    out = b""
    for b in blocks:
        if not b: continue
        sz = (b"%X" if upper else b"%x") % len(b)
        out += sz + (b";x=1" if ext else b"") + b"\r\n" + b + b"\r\n"
    return out + b"0\r\n\r\n"


def cut(data, points):
    """split data at the given offsets -> list of segments"""
    pts = sorted(set(p for p in points if 0 < p < len(data)))
    segs = []; last = 0
    for p in pts:
        segs.append(data[last:p]); last = p
    segs.append(data[last:])
    return segs


# ---------------------------------------------------------------------------------------------- FastCGI
FCGI_BEGIN, FCGI_ABORT, FCGI_END, FCGI_PARAMS, FCGI_STDIN, FCGI_STDOUT, FCGI_STDERR = 1, 2, 3, 4, 5, 6, 7


def fcgi_record(typ, reqid, content, padding=0, padbytes=None):
    pad = (padbytes if padbytes is not None else b"\0" * padding)
    return struct.pack(">BBHHBB", 1, typ, reqid, len(content), len(pad), 0) + content + pad


def fcgi_stdout(reqid, blocks, paddings=None, end=True, app_status=0):
    """blocks -> FCGI_STDOUT records (one per block, optional padding each) + empty STDOUT + END_REQUEST"""
    out = []
    for i, b in enumerate(blocks):
        out.append(fcgi_record(FCGI_STDOUT, reqid, b, (paddings[i] if paddings else 0)))
    if end:
        out.append(fcgi_record(FCGI_STDOUT, reqid, b""))
        out.append(fcgi_record(FCGI_END, reqid, struct.pack(">IB3x", app_status, 0)))
    return out


def fcgi_decode_params(raw):
    """strict decoder of FCGI name-value pairs; raises ValueError when the stream is malformed"""
    out = []; p = 0
    def ln():
        nonlocal p
        if p >= len(raw): raise ValueError("length byte missing at %d" % p)
        b = raw[p]
        if b < 128: p += 1; return b
        if p + 4 > len(raw): raise ValueError("4-byte length truncated at %d" % p)
        v = struct.unpack(">I", raw[p:p + 4])[0] & 0x7fffffff; p += 4; return v
    while p < len(raw):
        nl = ln(); vl = ln()
        if p + nl + vl > len(raw): raise ValueError("pair at %d overruns the stream (name %d value %d, %d left)" % (p, nl, vl, len(raw) - p))
        out.append((raw[p:p + nl], raw[p + nl:p + nl + vl])); p += nl + vl
    return out


class FcgiBackend:
    """FastCGI responder: records every request (raw PARAMS stream, decoded pairs, STDIN bytes, record-level problems) and answers with
    the script selected by id=<n> in QUERY_STRING: list of (bytes, delay) segments of raw record bytes, then 'close' | 'keep' | 'rst'."""
    def __init__(self):
        self.sock = socket.socket(); self.sock.setsockopt(socket.SOL_SOCKET, socket.SO_REUSEADDR, 1)
        self.sock.bind(("127.0.0.1", 0)); self.sock.listen(64)
        self.port = self.sock.getsockname()[1]
        self.scripts = {}; self.requests = []; self.lock = threading.Lock(); self.stop_flag = False
        self.default = None
        self.th = threading.Thread(target=self._accept, daemon=True); self.th.start()

    def script(self, sid, segments_fn, end="close"):
        """segments_fn(reqid) -> list of (bytes, delay)"""
        self.scripts[sid] = (segments_fn, end)

    def _accept(self):
        self.sock.settimeout(0.2)
        while not self.stop_flag:
            try: c, _ = self.sock.accept()
            except socket.timeout: continue
            except OSError: break
            threading.Thread(target=self._serve, args=(c,), daemon=True).start()

    def _serve(self, c):
        c.settimeout(8.0)
        buf = b""
        def need(n):
            nonlocal buf
            while len(buf) < n:
                d = c.recv(65536)
                if not d: return False
                buf += d
            return True
        try:
            while True:
                params = b""; stdin = b""; problems = []; reqid = None; got_params_end = False; nrec = 0
                while True:
                    if not need(8): return
                    ver, typ, rid, clen, plen, _ = struct.unpack(">BBHHBB", buf[:8])
                    if not need(8 + clen + plen): return
                    content = buf[8:8 + clen]; buf = buf[8 + clen + plen:]; nrec += 1
                    if ver != 1: problems.append("record version %d" % ver)
                    if typ == FCGI_BEGIN:
                        reqid = rid
                        if clen != 8: problems.append("BEGIN_REQUEST content length %d" % clen)
                    elif typ == FCGI_PARAMS:
                        if rid != reqid: problems.append("PARAMS for request id %d, expected %s" % (rid, reqid))
                        if got_params_end: problems.append("PARAMS after end of PARAMS")
                        if clen == 0: got_params_end = True
                        params += content
                    elif typ == FCGI_STDIN:
                        if not got_params_end: problems.append("STDIN before end of PARAMS")
                        if clen == 0: break
                        stdin += content
                    elif typ == FCGI_ABORT:
                        problems.append("ABORT_REQUEST"); break
                    else: problems.append("unexpected record type %d" % typ)
                try: pairs = fcgi_decode_params(params)
                except ValueError as e: pairs = None; problems.append("PARAMS malformed: %s" % e)
                with self.lock: self.requests.append(dict(params_raw=params, pairs=pairs, stdin=stdin, problems=problems))
                q = b""
                for k, v in (pairs or []):
                    if k in (b"QUERY_STRING", b"REQUEST_URI"): q += b" " + v
                sm = re.search(rb"id=(\d+)", q)
                fn, end = self.scripts.get(int(sm.group(1)) if sm else -1, (None, "close"))
                if fn is None:
                    body = b"Status: 200\r\nContent-Type: text/plain\r\n\r\nok"
                    segs = [(b"".join(fcgi_stdout(reqid or 1, [body])), 0)]
                else:
                    segs = fn(reqid or 1)
                for data, delay in segs:
                    if delay: time.sleep(delay)
                    try: c.sendall(data)
                    except OSError: return
                if end == "keep": continue
                if end == "rst": c.setsockopt(socket.SOL_SOCKET, socket.SO_LINGER, struct.pack("ii", 1, 0))
                return
        except (socket.timeout, OSError):
            return
        finally:
            try: c.close()
            except OSError: pass

    def stop(self):
        self.stop_flag = True
        try: self.sock.close()
        except OSError: pass


# ---------------------------------------------------------------------------------------------- SCGI
class ScgiBackend:
    """SCGI responder: records the netstring header block and body of every request; answers like HttpBackend scripts (CGI-style response)."""
    def __init__(self):
        self.sock = socket.socket(); self.sock.setsockopt(socket.SOL_SOCKET, socket.SO_REUSEADDR, 1)
        self.sock.bind(("127.0.0.1", 0)); self.sock.listen(64)
        self.port = self.sock.getsockname()[1]
        self.scripts = {}; self.requests = []; self.lock = threading.Lock(); self.stop_flag = False
        self.th = threading.Thread(target=self._accept, daemon=True); self.th.start()

    def script(self, sid, segments, end="close"):
        self.scripts[sid] = (segments, end)

    def _accept(self):
        self.sock.settimeout(0.2)
        while not self.stop_flag:
            try: c, _ = self.sock.accept()
            except socket.timeout: continue
            except OSError: break
            threading.Thread(target=self._serve, args=(c,), daemon=True).start()

    def _serve(self, c):
        c.settimeout(8.0); buf = b""; problems = []
        try:
            while b":" not in buf[:12]:
                d = c.recv(65536)
                if not d: return
                buf += d
            m = re.match(rb"(\d+):", buf)
            if not m:
                with self.lock: self.requests.append(dict(pairs=None, body=b"", problems=["no netstring length: %r" % buf[:20]])); return
            n = int(m.group(1)); start = m.end()
            while len(buf) < start + n + 1:
                d = c.recv(65536)
                if not d: break
                buf += d
            hdr = buf[start:start + n]
            if buf[start + n:start + n + 1] != b",": problems.append("netstring not terminated by ','")
            parts = hdr.split(b"\0")
            if parts[-1] != b"": problems.append("header block does not end with NUL")
            parts = parts[:-1]
            if len(parts) % 2: problems.append("odd number of NUL-terminated strings")
            pairs = list(zip(parts[0::2], parts[1::2]))
            if not pairs or pairs[0][0] != b"CONTENT_LENGTH": problems.append("CONTENT_LENGTH is not the first header")
            cl = int(pairs[0][1]) if pairs and pairs[0][0] == b"CONTENT_LENGTH" and pairs[0][1].isdigit() else 0
            body = buf[start + n + 1:]
            while len(body) < cl:
                d = c.recv(65536)
                if not d: break
                body += d
            if len(body) != cl: problems.append("body of %d bytes, CONTENT_LENGTH %d" % (len(body), cl))
            with self.lock: self.requests.append(dict(pairs=pairs, body=body, problems=problems))
            q = b" ".join(v for k, v in pairs if k in (b"QUERY_STRING", b"REQUEST_URI"))
            sm = re.search(rb"id=(\d+)", q)
            segs, end = self.scripts.get(int(sm.group(1)) if sm else -1, ([(b"Status: 200\r\nContent-Type: text/plain\r\n\r\nok", 0)], "close"))
            for data, delay in segs:
                if delay: time.sleep(delay)
                try: c.sendall(data)
                except OSError: return
            if end == "rst": c.setsockopt(socket.SOL_SOCKET, socket.SO_LINGER, struct.pack("ii", 1, 0))
        except (socket.timeout, OSError):
            return
        finally:
            try: c.close()
            except OSError: pass

    def stop(self):
        self.stop_flag = True
        try: self.sock.close()
        except OSError: pass
