"""Shared machinery for the /verif checks (see DESIGN.md sections 1-2).

Everything a per-property module (props/Cxx.py) needs:
  * Ctx            - one check invocation: tier, seed, scratch dir, evidence, verdict
  * coq_prove()    - regenerate coq/Gen from /repo (tools/c2v.py), build the property's .vo files
  * model_driver() - extract the Gallina model to OCaml and build the line driver
  * cc_harness()   - compile a C harness against /repo's *current working tree*
  * run_lines()    - feed a case file to a binary, one hex-encoded case per line
  * known findings, VIOLATION lines, replay files, evidence JSON
"""
import fcntl, hashlib, json, os, random, re, shutil, subprocess, sys, tempfile, time

VERIF = os.path.dirname(os.path.dirname(os.path.abspath(__file__)))
REPO = os.environ.get("VERIF_REPO", "/repo")
SRC = os.path.join(REPO, "src")
WORK = os.path.join(VERIF, "_work")
COQ = os.path.join(VERIF, "coq")
GUARD = "LIGHTTPD_VERIF"
NCPU = os.cpu_count() or 4

COMMON_SRC = """base64.c buffer.c burl.c log.c http_header.c http_kv.c keyvalue.c chunk.c
http_chunk.c fdevent.c fdevent_fdnode.c gw_backend.c stat_cache.c http_etag.c array.c
algo_md5.c algo_sha1.c algo_splaytree.c configfile-glue.c http-header-glue.c http_cgi.c
http_date.c plugin.c reqpool.c request.c sock_addr.c rand.c fdlog_maint.c fdlog.c
sys-setjmp.c ck.c""".split()

TRUSTED_BASE = [
    "Coq 8.16.1 kernel (coqc full .vo build, no -vos/-vok); vm_compute used for finite sweeps and concrete witnesses; no native_compute",
    "axioms: none declared by this development; per-theorem Print Assumptions output recorded in coverage.assumptions_report",
    "extraction: Require Import ExtrOcamlBasic only (bool/option/unit/list/prod/sumbool/sumor mapped to OCaml natives, andb/orb inlined); N/Z/positive stay extracted inductives; no Extract Constant of ours",
    "OCaml 4.13.1 ocamlfind ocamlopt; hand-written line driver ocaml/driver_<id>.ml (hex parsing, printing only)",
    "tools/c2v.py translator (regex extraction of tables/constants from /repo/src into coq/Gen)",
    "C harness glue harness/*_h.c compiled against /repo/src of the working tree; python generators/canonicalisers in props/*.py",
    "modelled, not verified: the C text itself (no VST/CompCert here), libc, kernel, PCRE2, zlib",
]


def sh(cmd, timeout=None, cwd=None, env=None, inp=None, check=False):
    p = subprocess.run(cmd, shell=isinstance(cmd, str), cwd=cwd, env=env, input=inp,
                       stdout=subprocess.PIPE, stderr=subprocess.STDOUT, timeout=timeout)
    out = p.stdout.decode("utf-8", "replace") if isinstance(p.stdout, bytes) else p.stdout
    if check and p.returncode != 0:
        raise RuntimeError("command failed (%d): %s\n%s" % (p.returncode, cmd, out[-4000:]))
    return p.returncode, out


class Lock:
    def __init__(self, name="build"):
        os.makedirs(WORK, exist_ok=True)
        self.path = os.path.join(WORK, "." + name + ".lock")
    def __enter__(self):
        self.f = open(self.path, "w")
        fcntl.flock(self.f, fcntl.LOCK_EX)
        return self
    def __exit__(self, *a):
        fcntl.flock(self.f, fcntl.LOCK_UN)
        self.f.close()


def hx(b):
    if isinstance(b, str):
        b = b.encode("latin-1")
    return b.hex() if len(b) else "-"


def unhx(s):
    return b"" if s == "-" else bytes.fromhex(s)


# ---------------------------------------------------------------- config.h of the working tree
def config_dir():
    """Directory holding config.h for /repo's working tree (cmake configure with the baseline's
    options), cached under _work keyed by the files that determine it."""
    h = hashlib.sha256()
    for f in ("CMakeLists.txt", "src/CMakeLists.txt", "src/config.h.cmake"):
        try:
            h.update(open(os.path.join(REPO, f), "rb").read())
        except OSError:
            h.update(b"missing")
    d = os.path.join(WORK, "cfg-" + h.hexdigest()[:16])
    if os.path.exists(os.path.join(d, "config.h")):
        return d
    with Lock("cfg"):
        if os.path.exists(os.path.join(d, "config.h")):
            return d
        scratch = tempfile.mkdtemp(prefix="lvcfg.", dir="/var/tmp")
        try:
            rc, out = sh(["cmake", "-S", REPO, "-B", scratch, "-G", "Ninja", "-DWITH_PCRE2=ON",
                          "-DWITH_ZLIB=ON", "-DCMAKE_C_FLAGS=-Wno-error"], timeout=300)
            cfg = os.path.join(scratch, "build", "config.h")
            if rc != 0 or not os.path.exists(cfg):
                # fall back on the baseline build directory's config.h
                cfg = os.path.join(REPO, "_build", "build", "config.h")
                if not os.path.exists(cfg):
                    raise RuntimeError("cannot obtain config.h:\n" + out[-2000:])
            os.makedirs(d, exist_ok=True)
            shutil.copy(cfg, os.path.join(d, "config.h"))
        finally:
            shutil.rmtree(scratch, ignore_errors=True)
    return d


# ---------------------------------------------------------------- Coq side
def gate():
    """Refuse Admitted/admit/Axiom/... anywhere in the development."""
    pat = re.compile(r"\b(Admitted|admit|Axiom|Axioms|Parameter|Parameters|Conjecture|Admit Obligations|"
                     r"Unset Guard Checking|Unset Positivity Checking|Unset Universe Checking|bypass_check|"
                     r"type-in-type|impredicative-set|native_compute)\b")
    bad = []
    for root, _, files in os.walk(COQ):
        for f in files:
            if f.endswith(".v") or f == "_CoqProject":
                txt = open(os.path.join(root, f), errors="replace").read()
                txt = re.sub(r"\(\*.*?\*\)", "", txt, flags=re.S)
                for m in pat.finditer(txt):
                    bad.append("%s: %s" % (os.path.join(root, f), m.group(0)))
    return bad


def c2v():
    rc, out = sh([sys.executable, os.path.join(VERIF, "tools", "c2v.py"), SRC, os.path.join(COQ, "Gen")],
                 timeout=120)
    return rc, out


def coq_makefile():
    mk = os.path.join(COQ, "Makefile")
    cp = os.path.join(COQ, "_CoqProject")
    if (not os.path.exists(mk)) or os.path.getmtime(mk) < os.path.getmtime(cp):
        sh(["coq_makefile", "-f", "_CoqProject", "-o", "Makefile"], cwd=COQ, check=True)


def coq_prove(pid, targets=None, timeout=900):
    """Regenerate Gen, (re)build Props/Properties_<pid>.vo and what it depends on.
    Returns dict(ok, log, assumptions, theorems, gen_problems)."""
    res = dict(ok=False, log="", assumptions="", theorems=[], gen_problems="")
    with Lock("coq"):
        rc, out = c2v()
        res["gen_problems"] = out.strip() if rc != 0 else ""
        coq_makefile()
        prop_v = "Props/Properties_%s.v" % pid
        prop_vo = prop_v + "o"
        # always re-run the property file itself so Print Assumptions output is from this run
        try:
            os.remove(os.path.join(COQ, prop_vo))
        except OSError:
            pass
        tg = [prop_vo] + (targets or [])
        rc2, out2 = sh(["timeout", str(timeout), "make", "-j%d" % NCPU, "-k"] + tg, cwd=COQ, timeout=timeout + 30)
        res["log"] = out2
        res["ok"] = (rc == 0 and rc2 == 0)
    bad = gate()
    if bad:
        res["ok"] = False
        res["log"] += "\nGATE: " + "; ".join(bad)
    txt = open(os.path.join(COQ, prop_v)).read()
    txt_nc = re.sub(r"\(\*.*?\*\)", "", txt, flags=re.S)
    res["theorems"] = re.findall(r"^\s*(?:Theorem|Lemma|Corollary)\s+(\w+)", txt_nc, flags=re.M)
    # Print Assumptions output: "Closed under the global context" or "Axioms:" blocks
    rep = []
    for m in re.finditer(r"(Closed under the global context|Axioms:\n(?:.+\n?)+?)(?=\n\S|\Z)", res["log"]):
        rep.append(m.group(1).strip())
    res["assumptions"] = rep
    return res


def broken_obligations(proof):
    """Names of .v files / theorems that failed, from the make log."""
    out = []
    for m in re.finditer(r'File "\./([^"]+)", line (\d+), characters [^\n]*\n(Error:[^\n]*(?:\n[^\n]+){0,3})', proof["log"]):
        out.append("%s:%s %s" % (m.group(1), m.group(2), " ".join(m.group(3).split())[:300]))
    if not out and not proof["ok"]:
        out.append("build failed: " + " ".join(proof["log"].split())[-400:])
    return out


def model_driver(pid):
    """Extract coq/Extract_<pid>.v -> _work/ml_<pid>/model.ml and build ocaml/driver_<pid>.ml with it.
    Returns path of the binary (or raises)."""
    d = os.path.join(WORK, "ml_" + pid)
    exe = os.path.join(d, "modelrun")
    with Lock("coq"):
        os.makedirs(d, exist_ok=True)
        c2v()        # the generated constants must be those of the tree as it is now (a replay does not go through coq_prove)
        ext_v = os.path.join(COQ, "Extract_%s.v" % pid)
        drv = os.path.join(VERIF, "ocaml", "driver_%s.ml" % pid)
        # dependencies: every .vo under coq (cheap stat)
        newest = max([os.path.getmtime(ext_v), os.path.getmtime(drv), os.path.getmtime(os.path.join(VERIF, "ocaml", "conv.ml"))] +
                     [os.path.getmtime(os.path.join(r, f)) for r, _, fs in os.walk(COQ) for f in fs if f.endswith(".vo")] or [0])
        deps = re.findall(r"\b([A-Z]\w*(?:\.\w+)+)\b", re.sub(r"\(\*.*?\*\)", "", open(ext_v).read().split("Require Import ExtrOcamlBasic")[0], flags=re.S))
        tg = [x.replace(".", "/") + ".vo" for x in deps]
        if tg:
            coq_makefile()
            sh(["timeout", "900", "make", "-j%d" % NCPU, "-k"] + tg, cwd=COQ, timeout=930)
        newest = max([os.path.getmtime(ext_v), os.path.getmtime(drv), os.path.getmtime(os.path.join(VERIF, "ocaml", "conv.ml"))] +
                     [os.path.getmtime(os.path.join(COQ, t)) for t in tg if os.path.exists(os.path.join(COQ, t))])
        if os.path.exists(exe) and os.path.getmtime(exe) >= newest:
            return exe
        rc, out = sh(["timeout", "300", "coqc", "-Q", COQ, "LV", ext_v], cwd=d, timeout=330)
        if rc != 0:
            raise RuntimeError("extraction failed for %s:\n%s" % (pid, out[-3000:]))
        for f in ("Extract_%s.vo" % pid, "Extract_%s.glob" % pid, "Extract_%s.vok" % pid, "Extract_%s.vos" % pid,
                  ".Extract_%s.aux" % pid):
            try:
                os.remove(os.path.join(COQ, f))
            except OSError:
                pass
        with open(os.path.join(d, "driver.ml"), "w") as f:
            f.write(open(os.path.join(VERIF, "ocaml", "conv.ml")).read() + "\n" + open(drv).read())
        rc, out = sh(["ocamlfind", "ocamlopt", "-O3", "-w", "-a", "-package", "str,unix", "-linkpkg",
                      "model.mli", "model.ml", "driver.ml", "-o", "modelrun"], cwd=d, timeout=300)
        if rc != 0:
            rc, out = sh(["ocamlfind", "ocamlopt", "-w", "-a", "-package", "str,unix", "-linkpkg",
                          "model.mli", "model.ml", "driver.ml", "-o", "modelrun"], cwd=d, timeout=300)
        if rc != 0:
            raise RuntimeError("ocaml build failed for %s:\n%s" % (pid, out[-3000:]))
    return exe


# ---------------------------------------------------------------- C side
def cc_harness(ctx, name, link_srcs=(), extra_srcs=(), cflags=(), ldflags=(), sanitize=False, defines=()):
    """Compile harness/<name>.c (which #includes the /repo/src files under test) plus the listed
    /repo/src files (compiled separately, in parallel) into <scratch>/<name>.  Built from the
    working tree on every call."""
    cfg = config_dir()
    out = os.path.join(ctx.scratch, name)
    objdir = os.path.join(ctx.scratch, "obj_" + name)
    os.makedirs(objdir, exist_ok=True)
    base = ["cc", "-O1", "-g", "-std=gnu11", "-DHAVE_CONFIG_H", "-D" + GUARD, "-D_GNU_SOURCE", "-Wno-error", "-w",
            "-I" + cfg, "-I" + SRC, "-I" + os.path.join(VERIF, "harness")] + ["-D" + d for d in defines] + list(cflags)
    if sanitize:
        # nonnull-attribute is left out: memcpy(dst, NULL, 0) in ls-hpack's lshpack_arr_push (and chunk.c's tempdir strlen) is flagged by it
        # although no byte is touched (see DESIGN.md, C12 notes)
        base += ["-fsanitize=address,undefined", "-fno-sanitize=nonnull-attribute", "-fno-sanitize-recover=all", "-fno-omit-frame-pointer"]
    jobs = []
    objs = []
    for s in list(link_srcs):
        o = os.path.join(objdir, s.replace("/", "_") + ".o")
        objs.append(o)
        jobs.append(base + ["-c", os.path.join(SRC, s), "-o", o])
    for s in list(extra_srcs):
        o = os.path.join(objdir, "x_" + os.path.basename(s) + ".o")
        objs.append(o)
        jobs.append(base + ["-c", s, "-o", o])
    ho = os.path.join(objdir, "h_" + name + ".o")
    jobs.append(base + ["-c", os.path.join(VERIF, "harness", name + ".c"), "-o", ho])
    objs.append(ho)
    procs = []
    errs = []
    it = iter(jobs)
    running = []
    def reap(block):
        for p, j in list(running):
            if block:
                p.wait()
            if p.poll() is not None:
                running.remove((p, j))
                o = p.stdout.read().decode("utf-8", "replace")
                if p.returncode != 0:
                    errs.append("%s\n%s" % (" ".join(j[-3:]), o[-3000:]))
    for j in it:
        while len(running) >= NCPU:
            reap(False)
            time.sleep(0.005)
        running.append((subprocess.Popen(j, stdout=subprocess.PIPE, stderr=subprocess.STDOUT), j))
    while running:
        reap(True)
    if errs:
        raise BuildError("C harness %s does not compile against the working tree:\n%s" % (name, "\n".join(errs)))
    link = ["cc"] + (["-fsanitize=address,undefined"] if sanitize else []) + objs + ["-o", out] + \
        ["-lpcre2-8", "-ldl", "-lm", "-lz"] + list(ldflags)
    rc, o = sh(link, timeout=300)
    if rc != 0:
        raise BuildError("C harness %s does not link:\n%s" % (name, o[-3000:]))
    return out


class BuildError(Exception):
    pass


def _big_stack():
    import resource
    try:
        resource.setrlimit(resource.RLIMIT_STACK, (resource.RLIM_INFINITY, resource.RLIM_INFINITY))
    except Exception:
        try:
            soft, hard = resource.getrlimit(resource.RLIMIT_STACK)
            resource.setrlimit(resource.RLIMIT_STACK, (hard, hard))
        except Exception:
            pass


HARNESS_ENV = dict(os.environ, ASAN_OPTIONS="detect_leaks=0:abort_on_error=0", UBSAN_OPTIONS="print_stacktrace=1")


def run_lines(exe, lines, timeout=600, args=(), env=None):
    """Run exe with the case lines on stdin; return list of output lines (one per case expected)."""
    env = env or HARNESS_ENV
    data = ("\n".join(lines) + "\n").encode()
    p = subprocess.run([exe] + list(args), input=data, stdout=subprocess.PIPE, stderr=subprocess.PIPE,
                       timeout=timeout, env=env, preexec_fn=_big_stack)
    out = p.stdout.decode("latin-1").split("\n")
    if out and out[-1] == "":
        out.pop()
    return p.returncode, out, p.stderr.decode("latin-1", "replace")


def run_lines_sharded(exe, lines, shards=None, timeout=600, args=()):
    """Same, splitting the case list across processes (order preserved)."""
    shards = shards or NCPU
    if len(lines) < 2000 or shards <= 1:
        return run_lines(exe, lines, timeout=timeout, args=args)
    n = (len(lines) + shards - 1) // shards
    parts = [lines[i:i + n] for i in range(0, len(lines), n)]
    procs = []
    for part in parts:
        p = subprocess.Popen([exe] + list(args), stdin=subprocess.PIPE, stdout=subprocess.PIPE, stderr=subprocess.PIPE, preexec_fn=_big_stack, env=HARNESS_ENV)
        procs.append((p, part))
    import threading
    results = [None] * len(procs)
    def work(i, p, part):
        try:
            o, e = p.communicate(("\n".join(part) + "\n").encode(), timeout=timeout)
            results[i] = (p.returncode, o, e)
        except subprocess.TimeoutExpired:
            p.kill()          # never leave a runaway child behind
            try: o, e = p.communicate(timeout=10)
            except Exception: o, e = b"", b""
            results[i] = (-9, o, e + b"\n[killed after %d s]" % timeout)
    ths = [threading.Thread(target=work, args=(i, p, part)) for i, (p, part) in enumerate(procs)]
    for t in ths: t.start()
    for t in ths: t.join()
    rc = 0; out = []; err = ""
    for (r, o, e), part in zip(results, parts):
        ol = o.decode("latin-1").split("\n")
        if ol and ol[-1] == "":
            ol.pop()
        if r != 0:
            rc = r
            err += e.decode("latin-1", "replace")[-2000:]
            # keep alignment: pad
            ol = ol + ["<crash>"] * (len(part) - len(ol))
        out += ol
    return rc, out, err


# ---------------------------------------------------------------- known findings
def load_known(pid):
    """known_findings.txt lines:  known: property=<id> key=<key> <what fails>   |   fixed: property=<id> <commit> <what failed>"""
    res = []
    p = os.path.join(VERIF, "known_findings.txt")
    if os.path.exists(p):
        for l in open(p):
            l = l.strip()
            m = re.match(r"known:\s+property=(\S+)\s+key=(\S+)\s+(.*)", l)
            if m and m.group(1) == pid:
                res.append((m.group(2), m.group(3)))
    return res


# ---------------------------------------------------------------- one invocation
class Ctx:
    def __init__(self, pid, tier, seed):
        self.pid = pid
        self.tier = tier
        self.seed = seed
        self.rng = random.Random(seed * 1000003 + sum(map(ord, pid)))
        self.t0 = time.time()
        self.scratch = tempfile.mkdtemp(prefix="lv.%s." % pid, dir="/var/tmp")
        os.makedirs(os.path.join(self.scratch, "tmp"), exist_ok=True)
        HARNESS_ENV["TMPDIR"] = os.path.join(self.scratch, "tmp")
        self.violations = []      # (key, what, replay_obj)
        self.known_hits = []
        self.cov = dict(obligations=0, discharged=0, checker_cmd="", trusted_base=list(TRUSTED_BASE),
                        evaluations=0, distinct_nontrivial=0, rule="", samples=[], theorems=[],
                        assumptions_report=[], correspondence={}, distribution={})
        self.assumptions = []
        self.known = load_known(pid)
        self.proof = None

    # -- proof step
    def prove(self, targets=None, timeout=900):
        pr = coq_prove(self.pid, targets, timeout)
        self.proof = pr
        th = pr["theorems"]
        self.cov["theorems"] = th
        self.cov["obligations"] = max(1, len(th))
        self.cov["discharged"] = len(th) if pr["ok"] else 0
        self.cov["checker_cmd"] = ("python3 tools/c2v.py /repo/src coq/Gen && make -C coq Props/Properties_%s.vo "
                                   "(coqc 8.16.1, full .vo) && tools/gate.sh" % self.pid)
        self.cov["assumptions_report"] = pr["assumptions"][:40]
        if not pr["ok"]:
            self.cov["broken_obligations"] = broken_obligations(pr)
        return pr["ok"]

    def proof_broken_violation(self, found_input=None):
        """Called when a proof obligation no longer checks and no concrete failing input was found."""
        names = broken_obligations(self.proof)
        self.violate("proof-broken", "proof obligation(s) of %s no longer check: %s" % (self.pid, "; ".join(names)[:600]),
                     dict(kind="broken-proof", obligations=names, log_tail=self.proof["log"][-3000:]),
                     no_input=True)

    # -- verdict
    def violate(self, key, what, replay, no_input=False):
        for k, desc in self.known:
            if k == key:
                if (k, desc) not in self.known_hits:
                    self.known_hits.append((k, desc))
                return
        self.violations.append((key, what, replay, no_input))

    def add_samples(self, items, n=6):
        for it in items[:n]:
            if len(self.cov["samples"]) < 24:
                self.cov["samples"].append(it)

    def finish(self):
        wall = time.time() - self.t0
        os.makedirs(os.path.join(VERIF, "evidence"), exist_ok=True)
        os.makedirs(os.path.join(VERIF, "replays"), exist_ok=True)
        for k, desc in self.known_hits:
            print("KNOWN-FINDING: property=%s %s" % (self.pid, desc))
        nviol = 0
        seen = set()
        for key, what, replay, no_input in self.violations:
            if key in seen:
                continue
            seen.add(key)
            nviol += 1
            h = hashlib.sha1((key + json.dumps(replay, sort_keys=True, default=str)).encode()).hexdigest()[:10]
            path = os.path.join(VERIF, "replays", "%s-%s.json" % (self.pid, h))
            obj = dict(property=self.pid, key=key, what=what, seed=self.seed, tier=self.tier, replay=replay)
            with open(path, "w") as f:
                json.dump(obj, f, indent=1, default=str)
            print("# %s" % what[:1500])
            print("VIOLATION property=%s replay=%s%s" % (self.pid, path, " no-failing-input-found" if no_input else ""))
            if nviol >= 8:
                break
        ev = dict(property_id=self.pid, tier=self.tier, seed=self.seed, level="proof", coverage=self.cov,
                  assumptions=self.assumptions or ["see coverage.trusted_base"], wall_s=round(wall, 2),
                  violations=nviol)
        if not self.cov["samples"]:
            self.cov["samples"] = ["(no correspondence cases in this run)"]
        with open(os.path.join(VERIF, "evidence", "%s.json" % self.pid), "w") as f:
            json.dump(ev, f, indent=1, default=str)
        shutil.rmtree(self.scratch, ignore_errors=True)
        sys.stdout.flush()
        return 1 if nviol else 0


def diff_report(ctx, cases, impl_out, model_out, describe, key_prefix, monitor=None, max_report=3, classify=None):
    """Compare implementation and model outputs case by case.
    A disagreement alone is a broken correspondence; `monitor(case, impl_line)` (returns None if ok or a
    string saying which clause of the property fails) decides whether it is a concrete violation."""
    n = len(cases)
    dis = []
    if len(impl_out) != n or len(model_out) != n:
        ctx.violate(key_prefix + "-harness", "harness/model produced %d/%d lines for %d cases (crash or abort?)" %
                    (len(impl_out), len(model_out), n),
                    dict(kind="line-count", impl_tail=impl_out[-3:], model_tail=model_out[-3:],
                         first_unanswered=describe(cases[min(len(impl_out), n - 1)]) if n else None))
        n = min(n, len(impl_out), len(model_out))
    for i in range(n):
        if impl_out[i] != model_out[i]:
            dis.append(i)
    return dis


def judge(ctx, pid, label, cases, out_i, out_m, dis, monitor, describe, harness, corr_name, monitor_all=True, max_per_cat=1, max_cats=8, monitor_oracle=False):
    """Shared verdict logic (DESIGN section 2, step 7).
    dis = indices where implementation and model disagree.  monitor(case, impl_line) returns None or the
    clause of the property that fails.  Every disagreement is a broken correspondence; the monitor decides
    whether a concrete failing input can be attached (one replay per distinct failing clause, shortest input)."""
    n = min(len(cases), len(out_i), len(out_m))
    cats = {}
    unexplained = []
    disset = set(dis)
    for i in dis:
        why = monitor(cases[i], out_i[i])
        if why:
            k = re.sub(r"[0-9]+|b'.*?'|b\".*?\"", "#", why)[:60]
            if k not in cats or len(cases[i]) < len(cases[cats[k][0]]):
                cats[k] = (i, why)
        else:
            unexplained.append(i)
    if monitor_all:
        for i in range(n):
            if i not in disset and (monitor_oracle or out_m[i] != "ORACLE"):
                why = monitor(cases[i], out_i[i])
                if why:
                    k = "M:" + re.sub(r"[0-9]+|b'.*?'|b\".*?\"", "#", why)[:60]
                    if k not in cats or len(cases[i]) < len(cases[cats[k][0]]):
                        cats[k] = (i, why)
    found = bool(cats)
    for k, (i, why) in sorted(cats.items(), key=lambda kv: len(cases[kv[1][0]]))[:max_cats]:
        ctx.violate("%s:%s" % (label, k), "%s fails on the implementation%s: %s; input %s" %
                    (pid, " (the faithful model agrees with the code here)" if (k.startswith("M:") and i < len(out_m) and out_m[i] != "ORACLE") else "", why, describe(cases[i])),
                    dict(kind="monitor", case=cases[i], input=describe(cases[i]), impl=out_i[i], model=out_m[i] if i < len(out_m) else None,
                         why=why, harness=harness))
    if unexplained and not found:
        i = min(unexplained, key=lambda i: len(cases[i]))
        ctx.violate(label + "-correspondence",
                    "the code no longer computes the model's function (correspondence %s broken) on %d inputs, e.g. %s: impl=%s model=%s"
                    % (corr_name, len(unexplained), describe(cases[i]), out_i[i][:200], out_m[i][:200]),
                    dict(kind="correspondence", correspondence=corr_name, case=cases[i], input=describe(cases[i]), impl=out_i[i],
                         model=out_m[i], disagreements=len(dis), harness=harness), no_input=True)
    elif unexplained:
        ctx.cov["correspondence"].setdefault(label, {})["disagreements_without_failing_clause"] = len(unexplained)
    return found
