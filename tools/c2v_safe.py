from c2vlib import *


def c_expr_to_coq(e):
    """tiny translator for integer expressions over i, used, +, -, *, parentheses and literals"""
    e = e.strip()
    if not re.fullmatch(r"[\s0-9a-z_+\-*()]+", e): return None
    e = re.sub(r"\b(\d+)\b", r"\1", e)
    return e


def gen_safe(src, out):
    burl = strip_comments(rd(src, "burl.c"))
    txt = HDR % "src/burl.c, src/http_range.c, src/http_chunk.c, src/h1.c"
    txt += "Local Open Scope Z_scope.\n"
    for fn, name in (("burl_normalize_basic_unreserved_fix", "scratch_unres"), ("burl_normalize_basic_required_fix", "scratch_reqd")):
        m = re.search(r"%s\s*\([^)]*\)\s*\{.*?buffer_string_prepare_copy\(\s*t\s*,\s*([^;]*?)\)\s*;" % fn, burl, flags=re.S)
        ex = c_expr_to_coq(m.group(1)) if m else None
        if not ex:
            problems.append("%s: scratch buffer size expression not found / not translatable" % fn); ex = "0"
        txt += "Definition %s (i used : Z) : Z := %s.\n" % (name, ex)
    rng = strip_comments(rd(src, "http_range.c"))
    m = re.search(r"while\s*\(\s*\*s\+\+\s*!=\s*'\\0'\s*&&\s*n\s*(<=?)\s*lim\s*\)", rng)
    if not m: problems.append("http_range_parse: loop guard 'n < lim' not found")
    txt += "Definition range_loop_guard_strict : bool := %s.\n" % ("true" if m and m.group(1) == "<" else "false")
    m = re.search(r"int\s+lim\s*=\s*RMAX\s*\*\s*(\d+)\s*;", rng); m2 = re.search(r"off_t\s+ranges\[RMAX\s*\*\s*(\d+)\]", rng)
    if not m or not m2: problems.append("http_range: lim / ranges[] declarations not found")
    txt += "Definition range_lim_factor : Z := %d.\nDefinition range_array_factor : Z := %d.\n" % (int(m.group(1)) if m else 0, int(m2.group(1)) if m2 else 0)
    for fname, dname in (("http_chunk.c", "chunk_guard_backend"), ("h1.c", "chunk_guard_client")):
        t = strip_comments(rd(src, fname))
        m = re.search(r"te_chunked\s*>\s*\(off_t\)\(1uLL<<\(8\*sizeof\(off_t\)-(\d+)\)\)-(\d+)-(\d+)", t)
        if not m: problems.append("%s: chunk-size overflow guard not found in its known form" % fname)
        txt += "Definition %s : Z := 2 ^ (64 - %d) - %d - %d.\n" % (dname, int(m.group(1)) if m else 64, int(m.group(2)) if m else 0, int(m.group(3)) if m else 0)
    write_if_changed(os.path.join(out, "GenSafe.v"), txt)


GENERATORS = [gen_safe]
