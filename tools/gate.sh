#!/bin/sh
# tools/gate.sh -- fail if the development contains anything the brief forbids.
cd "$(dirname "$0")/../coq" || exit 2
if grep -rnE '\b(Admitted|admit|Axiom|Axioms|Parameter|Parameters|Conjecture|Admit Obligations|bypass_check|native_compute)\b|Unset (Guard|Positivity|Universe) Checking|type-in-type|impredicative-set' --include='*.v' --include=_CoqProject . ; then
  echo "GATE: forbidden construct found" ; exit 1
fi
echo "GATE: clean"
