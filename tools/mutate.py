#!/usr/bin/env python3
"""tools/mutate.py -- apply one hand-made source mutation to /repo, run the named checks, undo.  Used to look for changes that break a
property and survive (DESIGN 11.8); nothing it does stays in /repo.
usage: mutate.py <name> | all       (mutations are listed in MUTS below: file, old text, new text, checks)"""
import subprocess, sys, os
REPO = "/repo"
MUTS = {
 "h1-close-header": ("src/h1.c", 'CONST_STR_LEN("Connection"),\n                                 CONST_STR_LEN("close"));\n    }\n    else if (r->http_version == HTTP_VERSION_1_0)',
                     'CONST_STR_LEN("Connection"),\n                                 CONST_STR_LEN("Close"));\n    }\n    else if (r->http_version == HTTP_VERSION_1_0)', ["C04"]),
 "deflate-no-vary-fresh": ("src/mod_deflate.c", 'http_header_response_append(r, HTTP_HEADER_VARY,\n\t\t\t\t\t    CONST_STR_LEN("Vary"),\n\t\t\t\t\t    CONST_STR_LEN("Accept-Encoding"));', '(void)r;', ["C19"]),
 "deflate-no-vary": ("src/mod_deflate.c", 'buffer_append_string_len(vb, CONST_STR_LEN(",Accept-Encoding"));', '(void)vb;', ["C19"]),
 "read-idle-uses-write-idle": ("src/h1.c", ": (int)r->conf.max_read_idle;", ": (int)r->conf.max_write_idle;", ["C13"]),
 "etag-weak-prefix": ("src/http_etag.c", "if (s[0] == 'W' && s[1] == '/' ? (s+=2, weak_ok) : 1) {", "if (s[0] == 'W' && s[1] == '/' ? (s+=2, 1) : 1) {", ["C15"]),
 "rr-wrap": ("src/gw_backend.c", "for (ndx = 0; ndx <= (int) k; ++ndx) {", "for (ndx = 0; ndx < (int) k; ++ndx) {", ["C11"]),
 "nonce-window": ("src/mod_auth.c", "ts > cur_ts || cur_ts - ts > 600) {", "ts > cur_ts || cur_ts - ts > 6000) {", ["C16"]),
 "access-allow-any": ("src/mod_access.c", "return (match != NULL); /* allowed if match; denied if none matched */", "return 1 | (match != NULL);", ["C03"]),
 "fcgi-unknown-record": ("src/mod_fastcgi.c", "\t\t\tchunkqueue_mark_written(hctx->rb, packet.len);\n\t\t\tbreak;\n\t\t}\n\t} while (0 == fin);",
                         "\t\t\tchunkqueue_mark_written(hctx->rb, packet.len - packet.padding);\n\t\t\tbreak;\n\t\t}\n\t} while (0 == fin);", ["C10"]),
 "webdav-copy-overwrite": ("src/mod_webdav.c", "if (!overwrite) /* copying into a non-dir ? */", "if (overwrite) /* copying into a non-dir ? */", ["C18"]),
 "ims-equal-string-only": ("src/http-header-glue.c", "if (buffer_is_equal(lmod, vb)\n\t\t    || !http_date_if_modified_since(BUF_PTR_LEN(vb), lmtime)) {", "if (buffer_is_equal(lmod, vb)) {", ["C15"]),
 "inm-then-ims": ("src/http-header-glue.c", "\t} else if (http_method_get_head_query(r->http_method)\n\t\t   && (vb = http_header_request_get(r, HTTP_HEADER_IF_MODIFIED_SINCE,",
                  "\t}\n\tif (http_method_get_head_query(r->http_method)\n\t\t   && (vb = http_header_request_get(r, HTTP_HEADER_IF_MODIFIED_SINCE,", ["C15"]),
 "head-keeps-length": ("src/response.c", "        http_response_body_clear(r, 1);\n        r->resp_body_finished = 1;", "        http_response_body_clear(r, 0);\n        r->resp_body_finished = 1;", ["C04"]),
 "cgi-query-empty": ("src/http_cgi.c", 'n ? r->uri.query.ptr : "", n);', 'n > 1 ? r->uri.query.ptr : "", n > 1 ? n : 0);', ["C09"]),
 "steal-partial-mem": ("src/chunk.c", "chunkqueue_append_mem(dest, c->mem->ptr + c->offset, len);\n\t\t\t\tbreak;", "chunkqueue_append_mem(dest, c->mem->ptr, len);\n\t\t\t\tbreak;", ["C17"]),
 "h2-swin-conn": ("src/h2.c", "    r->x.h2.swin   -= (int32_t)sent;\n    h2r->x.h2.swin -= (int32_t)sent;", "    r->x.h2.swin   -= (int32_t)sent;", ["C06", "C05"]),
 "lim-conns": ("src/connections.c", "    ++srv->lim_conns;", "    if (srv->lim_conns < srv->srvconf.max_conns - 1) ++srv->lim_conns;", ["C13"]),
 "no-length-zero": ("src/response.c", "                http_header_response_set(r, HTTP_HEADER_CONTENT_LENGTH,\n                                         CONST_STR_LEN(\"Content-Length\"),\n                                         CONST_STR_LEN(\"0\"));",
                    "                (void)0;", ["C04"]),
 "deflate-cache-no-etag": ("src/mod_deflate.c", "    buffer_append_str2(tb, CONST_STR_LEN(\"-\"), /*(strip surrounding '\"')*/\n                           etag->ptr+1, buffer_clen(etag)-2);\n    return tb;",
                           "    buffer_append_str2(tb, CONST_STR_LEN(\"-\"), /*(strip surrounding '\"')*/\n                           etag->ptr+1, 1);\n    return tb;", ["C19"]),
 "auth-cache-age": ("src/mod_auth.c", "    if (cur_ts - ae->ctime > max_age)\n        keys[(*ndx)++] = t->key;", "    if (cur_ts - ae->ctime > max_age * 100)\n        keys[(*ndx)++] = t->key;", ["C16"]),
 "kv-url-query": ("src/keyvalue.c", "                    burl_append(b, BUF_PTR_LEN(burl->query), flags);\n                p+=5;", "                    burl_append(b, BUF_PTR_LEN(burl->path), flags);\n                p+=5;", ["C20"]),
 "dup-host-ignored": ("src/request.c", "        /* else parse duplicate for match or error */\n        __attribute_fallthrough__\n      case HTTP_HEADER_IF_MODIFIED_SINCE:",
                      "        return 0;\n      case HTTP_HEADER_IF_MODIFIED_SINCE:", ["C01"]),
 "hpack-evict": ("src/ls-hpack/lshpack.c", "    while (dec->hpd_cur_capacity > dec->hpd_cur_max_capacity)\n        hdec_drop_oldest_entry(dec);\n}", "    while (dec->hpd_cur_capacity > dec->hpd_cur_max_capacity + 32)\n        hdec_drop_oldest_entry(dec);\n}", ["C07"]),
 "dav-delete-subdir": ("src/mod_webdav.c", "            multi_status |= webdav_delete_dir(pconf, dst, r, flags);\n        }\n        else {\n            int status =\n              webdav_unlinkat(pconf, dst, dfd, de->d_name);",
                       "            multi_status |= 0;\n        }\n        else {\n            int status =\n              webdav_unlinkat(pconf, dst, dfd, de->d_name);", ["C18"]),
 "alias-dotdot-guard": ("src/mod_alias.c", "        if (*s == '.') ++s;\n        if (*s == '/' || *s == '\\0') {", "        if (*s == '.') ++s;\n        if (*s == '/') {", ["C02"]),
 "plain-pw-prefix": ("src/mod_authn_file.c", "rc = ck_memeq_const_time(BUF_PTR_LEN(tb), pw, strlen(pw)) ? 0 : -1;", "rc = (buffer_clen(tb) >= strlen(pw) && 0 == memcmp(tb->ptr, pw, strlen(pw))) ? 0 : -1;", ["C16"]),
 "ws-before-colon": ("src/request.c", "        if (colon[-1] == ' ' || colon[-1] == '\\t') {\n            if (http_header_strict) {", "        if (colon[-1] == ' ' || colon[-1] == '\\t') {\n            if (0) {", ["C01"]),
 "status-header-passed": ("src/http-header-glue.c", "                continue; /* do not send Status to client */", "                /* do not send Status to client */", ["C10"]),
 "location-302": ("src/http-header-glue.c", "    if (0 == r->http_status && light_btst(r->resp_htags, HTTP_HEADER_LOCATION)){\n        r->http_status = 302;", "    if (0 == r->http_status && light_btst(r->resp_htags, HTTP_HEADER_LOCATION)){\n        r->http_status = 200;", ["C10"]),
 "backend-close-ignored": ("src/http-header-glue.c", "                                               CONST_STR_LEN(\"close\")))\n                r->keep_alive = 0;\n            break;\n          case HTTP_HEADER_CONTENT_TYPE:", "                                               CONST_STR_LEN(\"close\")))\n                r->keep_alive = r->keep_alive;\n            break;\n          case HTTP_HEADER_CONTENT_TYPE:", ["C10", "C04"]),
 "cgi-no-pathinfo": ("src/http_cgi.c", "        if (!buffer_is_blank(&r->pathinfo)) {\n            rc |= cb(vdata, CONST_STR_LEN(\"PATH_INFO\"),\n                            BUF_PTR_LEN(&r->pathinfo));",
                     "        if (!buffer_is_blank(&r->pathinfo)) {\n            rc |= cb(vdata, CONST_STR_LEN(\"PATH_INFO\"),\n                            BUF_PTR_LEN(&r->uri.path));", ["C09"]),
 "cgi-server-name-port": ("src/http_cgi.c", "            const char *colon = strchr(s, ':');\n            if (colon) n = colon - s;", "            const char *colon = strchr(s, ':');\n            if (colon) n = colon - s + 1;", ["C09"]),
 "cgi-remote-port": ("src/http_cgi.c", "li_utostrn(buf, sizeof(buf), sock_addr_get_port(r->dst_addr)));", "li_utostrn(buf, sizeof(buf), 1 + sock_addr_get_port(r->dst_addr)));", ["C09"]),
 "rewrite-once-repeats": ("src/mod_rewrite.c", "		if (*hctx & REWRITE_STATE_FINISHED) return HANDLER_GO_ON;", "		if (0 && (*hctx & REWRITE_STATE_FINISHED)) return HANDLER_GO_ON;", ["C20"]),
 "rewrite-loop-limit": ("src/mod_rewrite.c", "		if (((++*hctx) & 0x1FF) > 100) {", "		if (((++*hctx) & 0x1FF) > 300) {", ["C20"]),
 "reluri-cr-unescaped": ("src/buffer.c", "\t1, 1, 1, 1, 1, 1, 1, 1, 1, 1, 1, 1, 1, 1, 1, 1,  /*  00 -  0F control chars */\n\t1, 1, 1, 1, 1, 1, 1, 1, 1, 1, 1, 1, 1, 1, 1, 1,  /*  10 -  1F */\n\t1, 0, 1, 1, 1, 1, 1, 1, 0, 0, 0, 1, 1, 0, 0, 0,  /*  20 -  2F space \" # $ % & ' + , */",
                         "\t1, 1, 1, 1, 1, 1, 1, 1, 1, 1, 1, 1, 1, 0, 1, 1,  /*  00 -  0F control chars */\n\t1, 1, 1, 1, 1, 1, 1, 1, 1, 1, 1, 1, 1, 1, 1, 1,  /*  10 -  1F */\n\t1, 0, 1, 1, 1, 1, 1, 1, 0, 0, 0, 1, 1, 0, 0, 0,  /*  20 -  2F space \" # $ % & ' + , */", ["C04"]),
 "symlink-walk-stops-early": ("src/stat_cache.c", "    } while ((s_cur = strrchr(buf, '/')) > buf); /*(&buf[0]==buf; NULL < buf)*/", "    } while ((s_cur = strrchr(buf, '/')) > buf + 8); /*(&buf[0]==buf; NULL < buf)*/", ["C02"]),
 "digest-uri-unchecked": ("src/mod_auth.c", "    if (!buffer_eq_slen(&r->target_orig, dp->ptr[e_uri], dp->len[e_uri])) {", "    if (0 && !buffer_eq_slen(&r->target_orig, dp->ptr[e_uri], dp->len[e_uri])) {", ["C16"]),
 "hpack-enc-evict": ("src/ls-hpack/lshpack.c", "    while (enc->hpe_cur_capacity > enc->hpe_max_capacity)\n        henc_drop_oldest_entry(enc);", "    while (enc->hpe_cur_capacity > enc->hpe_max_capacity + 40)\n        henc_drop_oldest_entry(enc);", ["C07"]),
 "reset-http-host": ("src/reqpool.c", "    r->http_host = NULL;\n", "", ["C08"]),
 "linger-x10": ("src/h1.c", "#define HTTP_LINGER_TIMEOUT 5", "#define HTTP_LINGER_TIMEOUT 50", ["C13"]),
 "userdir-exclude-ignored": ("src/mod_userdir.c", "    if (p->conf.exclude_user) {", "    if (0 && p->conf.exclude_user) {", ["C02"]),
 "xff-mask-trusts-all": ("src/mod_extforward.c", "        if (0 == iplen || iplen >= sizeof(addrstr)) return 0;", "        if (0 == iplen || iplen >= sizeof(addrstr)) return 0;\n        if (iplen > 8) return 1;", ["C03"]),
 "linger-forever": ("src/h1.c", "        if (cur_ts - con->close_timeout_ts > HTTP_LINGER_TIMEOUT)\n            changed = 1;", "        if (cur_ts - con->close_timeout_ts > HTTP_LINGER_TIMEOUT)\n            changed = 0;", ["C13"]),
 "status-304-keeps-body": ("src/response.c", "      case 304: /* cooperate with http_response_304() */\n        http_response_body_clear(r, 1);", "      case 304: /* cooperate with http_response_304() */\n        if (0) http_response_body_clear(r, 1);", ["C04", "C10"]),
 "backend-timeout-off": ("src/h1.c", "        if (cur_ts - con->write_request_ts > r->conf.max_write_idle) {", "        if (cur_ts - con->write_request_ts > 100000 + r->conf.max_write_idle) {", ["C13"]),
 "h2-rst-ignored": ("src/h2.c", "        r->state = CON_STATE_ERROR;\n        r->x.h2.state = H2_STATE_CLOSED;\n\n        /* attempt to detect HTTP/2 rapid reset attack", "        r->x.h2.state = H2_STATE_CLOSED;\n\n        /* attempt to detect HTTP/2 rapid reset attack", ["C05", "C06"]),
 "deflate-cache-in-place": ("src/mod_deflate.c", "    hctx->cache_fn[fnlen] = '.';\n", "    hctx->cache_fn[fnlen] = '\\0';\n", ["C19"]),
 "dav-put-in-place": ("src/mod_webdav.c", "    const char *pathtemp = tmpb->ptr;\n", "    const char *pathtemp = r->physical.path.ptr;\n", ["C18"]),
 "short-write-accounting": ("src/network_write.c", "        chunkqueue_mark_written(cq, wr);\n        return rc;", "        chunkqueue_mark_written(cq, (wr == toSend || wr < 2) ? wr : wr - 1);\n        return rc;", ["C04"]),
 "else-link": ("src/configparser.y", "    C->prev = B;\n    B->next = C;\n    A = C;", "    C->prev = B;\n    A = C;", ["C14"]),
}


def run(name):
    f, old, new, checks = MUTS[name]
    p = os.path.join(REPO, f)
    s = open(p).read()
    if old is None or old not in s:
        print("%s: pattern not found" % name); return
    open(p, "w").write(s.replace(old, new, 1))
    try:
        for c in checks:
            r = subprocess.run(["./check", c], cwd="/verif", capture_output=True, text=True)
            v = [l for l in r.stdout.splitlines() if l.startswith("VIOLATION")]
            first = [l for l in r.stdout.splitlines() if l.startswith("# ")]
            print("%s check=%s exit=%d %s %s" % (name, c, r.returncode, v[0] if v else "SURVIVED", (first[0][:200] if first else "")))
    finally:
        subprocess.run(["git", "-C", REPO, "checkout", "--", "."], check=True)
        subprocess.run(["git", "-C", "/verif", "checkout", "--"] + ["evidence/%s.json" % c for c in checks])


if __name__ == "__main__":
    for n in (MUTS if sys.argv[1] == "all" else sys.argv[1:]):
        run(n)
