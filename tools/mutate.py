#!/usr/bin/env python3
"""tools/mutate.py -- apply one hand-made source mutation to /repo, run the named checks, undo.  Used to look for changes that break a
property and survive (DESIGN 11.8); nothing it does stays in /repo.
usage: mutate.py <name> | all       (mutations are listed in MUTS below: file, old text, new text, checks)"""
import subprocess, sys, os
REPO = "/repo"
MUTS = {
 "h1-close-header": ("src/h1.c", 'CONST_STR_LEN("Connection"),\n                                 CONST_STR_LEN("close"));\n    }\n    else if (r->http_version == HTTP_VERSION_1_0)',
                     'CONST_STR_LEN("Connection"),\n                                 CONST_STR_LEN("Close"));\n    }\n    else if (r->http_version == HTTP_VERSION_1_0)', ["C04"]),
 "deflate-no-vary": ("src/mod_deflate.c", 'buffer_append_string_len(vb, CONST_STR_LEN(",Accept-Encoding"));', '(void)vb;', ["C19"]),
 "read-idle-uses-write-idle": ("src/h1.c", ": (int)r->conf.max_read_idle;", ": (int)r->conf.max_write_idle;", ["C13"]),
 "etag-weak-prefix": ("src/http_etag.c", "if (s[0] == 'W' && s[1] == '/' ? (s+=2, weak_ok) : 1) {", "if (s[0] == 'W' && s[1] == '/' ? (s+=2, 1) : 1) {", ["C15"]),
 "range-last-byte": ("src/http_range.c", None, None, ["C15"]),
}


def run(name):
    f, old, new, checks = MUTS[name]
    p = os.path.join(REPO, f)
    s = open(p).read()
    if old is None or old not in s:
        print("%s: pattern not found" % name); return
    open(p, "w").write(s.replace(old, new, 1))
    try:
        for c in checks:
            r = subprocess.run(["./check", c], cwd="/verif", capture_output=True, text=True)
            v = [l for l in r.stdout.splitlines() if l.startswith("VIOLATION")]
            first = [l for l in r.stdout.splitlines() if l.startswith("# ")]
            print("%s check=%s exit=%d %s %s" % (name, c, r.returncode, v[0] if v else "SURVIVED", (first[0][:200] if first else "")))
    finally:
        subprocess.run(["git", "-C", REPO, "checkout", "--", "."], check=True)
        subprocess.run(["git", "-C", "/verif", "checkout", "--"] + ["evidence/%s.json" % c for c in checks])


if __name__ == "__main__":
    for n in (MUTS if sys.argv[1] == "all" else sys.argv[1:]):
        run(n)
