#!/bin/sh
# tools/confirm_seed.sh Cxx n  -- confirm a sub-agent's seeded change in its scratch worktree (/tmp/seed/Cxx):
# compiles, suite passes with it, demo fails with it and passes without it.  Then store it under seeded/Cxx-n/.
ID=$1; N=$2; WT=/tmp/seed/$ID; OUT=/tmp/seed/$ID.out/$N
set -u
cd $WT || exit 2
git checkout -q -- . ; git apply --check $OUT/patch.diff || { echo "PATCH DOES NOT APPLY"; exit 3; }
[ -d _build ] || cmake -S . -B _build -G Ninja -DCMAKE_BUILD_TYPE=RelWithDebInfo -DWITH_PCRE2=ON -DWITH_ZLIB=ON -DCMAKE_C_FLAGS=-Wno-error >/dev/null
cmake --build _build -j8 >/dev/null 2>&1
sh $OUT/run.sh $WT >/tmp/seed/$ID.$N.demo_clean.log 2>&1; CLEAN=$?
git apply $OUT/patch.diff
cmake --build _build -j8 >/tmp/seed/$ID.$N.build.log 2>&1; BUILD=$?
ctest --test-dir _build -j1 --timeout 900 >/tmp/seed/$ID.$N.suite.log 2>&1; SUITE=$?
sh $OUT/run.sh $WT >/tmp/seed/$ID.$N.demo_patched.log 2>&1; PATCHED=$?
git checkout -q -- . ; cmake --build _build -j8 >/dev/null 2>&1
echo "$ID/$N build=$BUILD suite=$SUITE($(grep -o '[0-9]*% tests passed.*' /tmp/seed/$ID.$N.suite.log)) demo_clean=$CLEAN demo_patched=$PATCHED"
if [ $BUILD = 0 ] && [ $SUITE = 0 ] && [ $CLEAN = 0 ] && [ $PATCHED != 0 ]; then
  D=/verif/seeded/$ID-$N; mkdir -p $D; cp -r $OUT/* $D/
  python3 - "$D" "$ID" "$N" <<'PY'
import json, sys
d, pid, n = sys.argv[1:4]
p = d + "/meta.json"
try: m = json.load(open(p))
except Exception: m = {}
m["confirmed_by_main"] = "tools/confirm_seed.sh %s %s in scratch worktree /tmp/seed/%s: builds, ctest -j1 passes, demo exits 0 without and non-zero with the patch" % (pid, n, pid)
json.dump(m, open(p, "w"), indent=1)
PY
  echo CONFIRMED
else echo NOT-CONFIRMED; fi
