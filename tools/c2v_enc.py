from c2vlib import *

def gen_enc(src, out):
    """buffer.c: the ENCODING_REL_URI table and the shape of the escape (%XX, upper-case hex); http-header-glue.c: the pieces of the
    directory-redirect Location value in order"""
    t = strip_comments(rd(src, "buffer.c"))
    m = re.search(r"static const char encoded_chars_rel_uri\[\]\s*=\s*\{([^}]*)\}", t)
    vals = [int(x) for x in re.findall(r"\b([01])\b", m.group(1))] if m else []
    if len(vals) != 256:
        problems.append("buffer.c: encoded_chars_rel_uri[] does not have 256 entries (%d)" % len(vals)); vals = (vals + [1] * 256)[:256]
    m2 = re.search(r"static const char hex_chars_uc\[\]\s*=\s*\"([0-9A-F]{16})\"", t)
    if not m2 or m2.group(1) != "0123456789ABCDEF": problems.append("buffer.c: hex_chars_uc is not \"0123456789ABCDEF\"")
    body = t[t.find("void buffer_append_string_encoded("):]
    body = body[:body.find("\nvoid ", 10)]
    shape = bool(re.search(r"if\s*\(\s*!map\[\*ds\]\s*\)\s*\*d\+\+\s*=\s*\*ds\s*;\s*else if\s*\(\s*encoding\s*<=\s*ENCODING_REL_URI_PART\s*\)\s*\{\s*d\[0\]\s*=\s*'%'\s*;\s*"
                           r"d\[1\]\s*=\s*hex_chars_uc\[\*ds\s*>>\s*4\]\s*;\s*d\[2\]\s*=\s*hex_chars_uc\[\*ds\s*&\s*0x0F\]\s*;", body))
    if not shape: problems.append("buffer.c: buffer_append_string_encoded no longer has the shape 'copy or %XX with hex_chars_uc'")
    order = bool(re.search(r"encoded_chars_maps\[\]\s*=\s*\{\s*encoded_chars_rel_uri\s*,", t)) and bool(re.search(r"ENCODING_REL_URI\s*=\s*0\s*,\s*ENCODING_REL_URI_PART", strip_comments(rd(src, "buffer.h"))))
    if not order: problems.append("buffer.c/.h: ENCODING_REL_URI is not the first encoding / map")
    g = strip_comments(rd(src, "http-header-glue.c"))
    f = g[g.find("int http_response_redirect_to_directory("):]
    f = f[:f.find("\n}\n")]
    steps = []
    for mm in re.finditer(r"buffer_append_str2\(o, BUF_PTR_LEN\(&r->uri\.scheme\),\s*CONST_STR_LEN\(\"://\"\)\)|http_response_buffer_append_authority\(r, o\)|"
                          r"buffer_append_string_encoded\(vb, BUF_PTR_LEN\(&r->uri\.path\),\s*ENCODING_REL_URI\)|buffer_append_char\(vb, '/'\)|"
                          r"buffer_append_str2\(vb, CONST_STR_LEN\(\"\?\"\),\s*BUF_PTR_LEN\(&r->uri\.query\)\)", f):
        x = mm.group(0)
        steps.append("scheme" if "scheme" in x else "authority" if "authority" in x else "path" if "uri.path" in x else "slash" if "'/'" in x else "query")
    want = ["scheme", "authority", "path", "slash", "query"]
    if steps != want: problems.append("http_response_redirect_to_directory: Location pieces are %s, modelled %s" % (steps, want))
    txt = HDR % "src/buffer.c (encoded_chars_rel_uri, buffer_append_string_encoded), src/http-header-glue.c (http_response_redirect_to_directory)"
    txt += "Definition rel_uri_table : list bool := [%s].\n" % "; ".join("true" if v else "false" for v in vals)
    txt += "Definition rel_uri_escape_is_percent_hex_uc : bool := %s.\n" % ("true" if shape and order and m2 else "false")
    txt += "Definition dir_redirect_pieces_as_modelled : bool := %s.\n" % ("true" if steps == want else "false")
    write_if_changed(os.path.join(out, "GenEnc.v"), txt)


GENERATORS = [gen_enc]
