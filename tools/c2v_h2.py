from c2vlib import *


def enum_vals(t, prefix):
    out = []
    for m in re.finditer(r"\b(%s\w+)\s*=\s*(0x[0-9a-fA-F]+|\d+)" % prefix, t):
        out.append((m.group(1), int(m.group(2), 0)))
    return out


def gen_h2(src, out):
    h = strip_comments(rd(src, "h2.h"))
    c = rd(src, "h2.c")
    cn = strip_comments(c)
    txt = HDR % "src/h2.h, src/h2.c"
    for pre in ("H2_FTYPE_", "H2_SETTINGS_", "H2_FLAG_", "H2_E_"):
        vals = enum_vals(h, pre)
        if not vals:
            problems.append("no %s* enum values found" % pre)
        for n, v in vals:
            txt += "Definition %s : N := %d%%N.\n" % (n, v)
    # h2_init_con(): the windows and the peer's settings before any SETTINGS frame arrives
    def init(pat, name):
        m = re.search(pat, cn)
        if not m:
            problems.append("cannot find %s in h2_init_con/h2_init_stream" % name)
            return 0
        return int(m.group(1), 0)
    body = cn[cn.find("h2_init_con ("):]
    body = body[:body.find("h2_send_hpack")]
    txt += "Definition init_conn_swin : Z := %d%%Z.\n" % init(r"h2r->x\.h2\.swin\s*=\s*(\d+)\s*;", "connection send window")
    txt += "Definition init_conn_rwin : Z := %d%%Z.\n" % init(r"h2r->x\.h2\.rwin\s*=\s*(\d+)\s*;", "connection recv window")
    m = re.search(r"h2c->s_initial_window_size\s*=\s*(\d+)\s*;", body)
    if not m: problems.append("cannot find s_initial_window_size initial value")
    txt += "Definition init_peer_initial_window : Z := %d%%Z.\n" % (int(m.group(1)) if m else 0)
    m = re.search(r"h2c->s_max_frame_size\s*=\s*(\d+)\s*;", body)
    if not m: problems.append("cannot find s_max_frame_size initial value")
    txt += "Definition init_peer_max_frame : N := %d%%N.\n" % (int(m.group(1)) if m else 0)
    m = re.search(r"r->x\.h2\.rwin\s*=\s*(\d+)\s*;\s*r->x\.h2\.swin\s*=\s*h2c->s_initial_window_size\s*;", cn)
    if not m: problems.append("h2_init_stream: cannot find rwin initial value / swin no longer taken from s_initial_window_size")
    txt += "Definition init_stream_rwin : Z := %d%%Z.\n" % (int(m.group(1)) if m else 0)
    m = re.search(r"H2_SETTINGS_INITIAL_WINDOW_SIZE[^\n]*\n\s*,0x([0-9a-fA-F]{2}), 0x([0-9a-fA-F]{2}), 0x([0-9a-fA-F]{2}), 0x([0-9a-fA-F]{2})", c)
    if not m: problems.append("cannot find advertised SETTINGS_INITIAL_WINDOW_SIZE in h2settings[]")
    txt += "Definition advertised_initial_window : Z := %d%%Z.\n" % (int("".join(m.groups()), 16) if m else 0)
    m = re.search(r"/\* WINDOW_UPDATE \*/\s*,0x00, 0x00, 0x04[^\n]*\n[^\n]*\n[^\n]*\n[^\n]*\n\s*,0x([0-9a-fA-F]{2}), 0x([0-9a-fA-F]{2}), 0x([0-9a-fA-F]{2}), 0x([0-9a-fA-F]{2})", c[c.find("h2settings[]"):])
    if not m: problems.append("cannot find connection WINDOW_UPDATE in h2settings[]")
    txt += "Definition advertised_conn_window_incr : Z := %d%%Z.\n" % (int("".join(m.groups()), 16) if m else 0)
    m = re.search(r"/\* SETTINGS \*/\s*0x00, 0x00, 0x([0-9a-fA-F]{2})\s*/\* frame length \*/", c)
    if not m: problems.append("cannot find server SETTINGS frame length")
    txt += "Definition server_settings_len : Z := %d%%Z.\n" % (int(m.group(1), 16) if m else 0)
    m = re.search(r"h2_send_window_update\(con, id, (\d+)\);", cn)
    if not m: problems.append("cannot find extra credit granted with HEADERS")
    txt += "Definition headers_extra_credit : Z := %d%%Z.\n" % (int(m.group(1)) if m else 0)
    # per-round per-stream DATA budget and the small-send deferral threshold of h2_send_cqdata / h2_process_streams
    m = re.search(r"uint32_t dlen = \(r->x\.h2\.prio & 1\) \? (\d+)-(\d+) : (\d+);", cn)
    if not m: problems.append("cannot find per-round DATA budget")
    txt += "Definition round_budget : N := %d%%N.\nDefinition round_budget_incr : N := %d%%N.\n" % ((int(m.group(1)) - int(m.group(2)), int(m.group(3))) if m else (0, 0))
    m = re.search(r"else if \(dlen < (\d+) && cqlen >= (\d+)\) return 0;", cn)
    if not m or m.group(1) != m.group(2): problems.append("cannot find small-send deferral threshold")
    txt += "Definition defer_below : N := %d%%N.\n" % (int(m.group(1)) if m else 0)
    m = re.search(r"sizeof\(h2c->r\)/sizeof\(\*h2c->r\)", cn)
    hh = strip_comments(rd(src, "h2.h"))
    m = re.search(r"request_st \*r\[(\d+)\];", hh)
    if not m: problems.append("cannot find h2con r[] size")
    txt += "Definition max_streams : nat := %d%%nat.\n" % (int(m.group(1)) if m else 0)
    # receive side: fudge unit of h2_send_window_update_unit and the extra credit granted with HEADERS
    m = re.search(r"r->x\.h2\.rwin_fudge \+= (\d+);\s*h2_send_window_update\(con, r->x\.h2\.id, (\d+)\);", cn)
    if not m or m.group(1) != m.group(2): problems.append("cannot find rwin_fudge unit")
    txt += "Definition rwin_unit : Z := %d%%Z.\n" % (int(m.group(1)) if m else 0)
    write_if_changed(os.path.join(out, "GenH2.v"), txt)


GENERATORS = [gen_h2]
