#!/bin/sh
# tools/try_seed.sh <seeded dir name> [check id]  -- apply a stored seeded change to /repo, run the check, undo.
D=/verif/seeded/$1; ID=${2:-$(echo $1 | cut -d- -f1)}
git -C /repo apply $D/patch.diff || exit 3
cd /verif && ./check $ID --tier quick > /tmp/try_$1.log 2>&1; RC=$?
git -C /repo checkout -- .
# the evidence file now describes the changed tree: put the committed one back
git -C /verif checkout -- evidence/$ID.json 2>/dev/null
echo "$1 check=$ID exit=$RC"; grep -E "^VIOLATION|^KNOWN" /tmp/try_$1.log | head -5; grep "^#" /tmp/try_$1.log | cut -c1-300 | head -3
