from c2vlib import *


def arr_ints(t, name):
    m = re.search(r"\b%s\s*\[[^\]]*\]\s*=\s*\{(.*?)\};" % re.escape(name), t, flags=re.S)
    if not m:
        problems.append("cannot find array %s" % name)
        return []
    return [int(x, 0) for x in re.findall(r"-?(?:0x[0-9a-fA-F]+|\d+)", m.group(1))]


def gen_map(src, out):
    bh = strip_comments(rd(src, "burl.h"))
    txt = HDR % "src/burl.h, src/base64.c, src/mod_rewrite.c, src/keyvalue.c"
    for n in ["TOLOWER", "TOUPPER", "ENCODE_NONE", "ENCODE_ALL", "ENCODE_NDE", "ENCODE_PSNDE", "ENCODE_B64U", "DECODE_B64U"]:
        m = re.search(r"\bBURL_%s\s*=\s*(0x[0-9a-fA-F]+|\d+)" % n, bh)
        if not m:
            problems.append("cannot find BURL_%s" % n)
        txt += "Definition BURL_%s : N := %d%%N.\n" % (n, int(m.group(1), 0) if m else 0)
    b64 = strip_comments(rd(src, "base64.c"))
    m = re.search(r'base64_url_table\[\]\s*=\s*"([^"]*)"', b64)
    if not m or len(m.group(1)) != 65:
        problems.append("base64_url_table not recognised")
    txt += "Definition b64u_table : list N := %s.\n" % bytes_lit(m.group(1) if m else "")
    rv = arr_ints(b64, "base64_url_reverse_table")
    if len(rv) != 128:
        problems.append("base64_url_reverse_table has %d entries" % len(rv))
    txt += "Definition b64u_rev : list Z := [%s]%%Z.\n" % "; ".join(str(x) for x in rv)
    rw = strip_comments(rd(src, "mod_rewrite.c"))
    for n in ["REWRITE_STATE_REWRITTEN", "REWRITE_STATE_FINISHED"]:
        m = re.search(r"\b%s\s*=\s*(0x[0-9a-fA-F]+|\d+)" % n, rw)
        if not m:
            problems.append("cannot find %s" % n)
        txt += "Definition %s : N := %d%%N.\n" % (n, int(m.group(1), 0) if m else 0)
    m = re.search(r"\(\+\+\*hctx\)\s*&\s*(0x[0-9a-fA-F]+)\)\s*>\s*(\d+)", rw)
    if not m:
        problems.append("cannot find rewrite loop limit")
    txt += "Definition REWRITE_COUNT_MASK : N := %d%%N.\nDefinition REWRITE_LOOP_LIMIT : N := %d%%N.\n" % (
        (int(m.group(1), 0), int(m.group(2))) if m else (0, 0))
    # the modifier keywords of pcre_keyvalue_buffer_subst_ext and the flag each one sets, as written in the source
    kv = strip_comments(rd(src, "keyvalue.c"))
    mods = []
    for kw, pre in (("lower:", "to"), ("upper:", "to"), ("esc:", "no"), ("escape:", "no"), ("ape:", "esc"), ("nde:", "esc"), ("psnde:", "esc")):
        m = re.search(r'strncmp\(\(const char \*\)p,\s*"%s",\s*\d+\)\)\s*\{\s*flags\s*\|=\s*(BURL_\w+);' % re.escape(kw), kv)
        if not m:
            problems.append("cannot find modifier keyword %s" % kw)
        mods.append((pre + kw, m.group(1) if m else "BURL_TOLOWER"))
    m = re.search(r"p\[0\]\s*==\s*':'\)\s*\{\s*flags\s*\|=\s*(BURL_\w+);", kv)
    if not m:
        problems.append("cannot find esc: modifier")
    mods.append(("esc:", m.group(1) if m else "BURL_TOLOWER"))
    for kw in ("enc", "dec"):
        m = re.search(r"p\[0\]\s*==\s*'%s'\s*&&\s*p\[1\]\s*==\s*'%s'\s*&&\s*p\[2\]\s*==\s*'%s'\s*&&\s*0\s*==\s*strncmp\(\(const char \*\)p\+3,\s*\"b64u:\",\s*5\)\)\s*\{\s*flags\s*\|=\s*(BURL_\w+);"
                      % tuple(kw), kv)
        if not m:
            problems.append("cannot find %sb64u modifier" % kw)
        mods.append((kw + "b64u:", m.group(1) if m else "BURL_TOLOWER"))
    for name, flag in mods:
        txt += "Definition MOD_%s : N := %s.\n" % (name.rstrip(":"), flag)
    write_if_changed(os.path.join(out, "GenMap.v"), txt)


GENERATORS = [gen_map]
