#!/usr/bin/env python3
"""tools/c2v.py <repo/src> <coq/Gen>  --  the translator half of the tie (DESIGN.md section 0, "T").

Regenerates, from the C source of the working tree, every table and constant the Coq theorems
depend on (one generator module tools/c2v_<area>.py per area).  Files are rewritten only when
their content changes, so an unchanged tree costs no recompilation.  A symbol that can no longer
be found is reported on stdout and makes the exit status non-zero (the caller treats that as a
broken tie).
"""
import os, sys
here = os.path.dirname(os.path.abspath(__file__))
sys.path.insert(0, here)
import c2vlib


def main():
    src, out = sys.argv[1], sys.argv[2]
    os.makedirs(out, exist_ok=True)
    gens = []
    for fn in sorted(os.listdir(here)):
        if fn.startswith("c2v_") and fn.endswith(".py"):
            mod = __import__(fn[:-3])
            gens.extend(mod.GENERATORS)
    for g in gens:
        try:
            g(src, out)
        except Exception as e:  # a translator that cannot read the source is a broken tie, not a crash
            c2vlib.problems.append("%s: %s: %s" % (g.__name__, type(e).__name__, e))
    for p in c2vlib.problems:
        print("c2v: " + p)
    return 1 if c2vlib.problems else 0


if __name__ == "__main__":
    sys.exit(main())
