from c2vlib import *


def c_array_ints(t, name):
    m = re.search(r"\b%s\s*\[[^\]]*\]\s*=\s*\{(.*?)\};" % re.escape(name), t, flags=re.S)
    if not m:
        problems.append("cannot find array %s" % name)
        return []
    return [int(x, 0) for x in re.findall(r"-?(?:0x[0-9a-fA-F]+|\d+)", m.group(1))]


def enum_val(t, name):
    m = re.search(r"\b%s\s*=\s*(0x[0-9a-fA-F]+|\d+)" % re.escape(name), t)
    if not m:
        problems.append("cannot find enum %s" % name)
        return 0
    return int(m.group(1), 0)


def gen_burl(src, out):
    t = strip_comments(rd(src, "burl.c"))
    tab = c_array_ints(t, "encoded_chars_http_uri_reqd")
    if len(tab) != 256:
        problems.append("encoded_chars_http_uri_reqd has %d entries, expected 256" % len(tab))
    h = strip_comments(rd(src, "burl.h"))
    names = ["HEADER_STRICT", "HOST_STRICT", "HOST_NORMALIZE", "URL_NORMALIZE", "URL_NORMALIZE_UNRESERVED",
             "URL_NORMALIZE_REQUIRED", "URL_NORMALIZE_CTRLS_REJECT", "URL_NORMALIZE_PATH_BACKSLASH_TRANS",
             "URL_NORMALIZE_PATH_2F_DECODE", "URL_NORMALIZE_PATH_2F_REJECT", "URL_NORMALIZE_PATH_DOTSEG_REMOVE",
             "URL_NORMALIZE_PATH_DOTSEG_REJECT", "URL_NORMALIZE_QUERY_20_PLUS", "URL_NORMALIZE_INVALID_UTF8_REJECT",
             "METHOD_GET_BODY"]
    txt = HDR % "src/burl.c, src/burl.h"
    txt += "Definition reqd_table : list N := [%s]%%N.\n" % "; ".join(str(x) for x in tab)
    for n in names:
        txt += "Definition OPT_%s : N := %d%%N.\n" % (n, enum_val(h, "HTTP_PARSEOPT_" + n))
    m = re.search(r'hex_chars_uc\[\]\s*=\s*"([^"]*)"', t)
    if not m:
        problems.append("cannot find hex_chars_uc")
    txt += "Definition hex_chars_uc : list N := %s.\n" % bytes_lit(m.group(1) if m else "")
    write_if_changed(os.path.join(out, "GenBurl.v"), txt)


GENERATORS = [gen_burl]
