#!/usr/bin/env python3
"""Regenerates /verif/MANIFEST.json from the table below (run after adding a property)."""
import json, os
HERE = os.path.dirname(os.path.dirname(os.path.abspath(__file__)))
ALL = ["C%02d" % i for i in range(1, 21)]

CLAIMED = {
 "C01": dict(
    text="Coq theorems over an executable model of the HTTP/1.x request-head parser (request.c: reqline, header loop, single-header rules, "
         "CL/TE/Host post-checks): duplicate Content-Length never accepted, accepted Content-Length is all-digits <= INT64_MAX, accepted "
         "Transfer-Encoding is exactly chunked on HTTP/1.1; model tied to the code by regenerated header/method tables and by differential "
         "correspondence against http_header_parse_hoff()+http_request_headers_process() incl. every single-byte corruption of 12 base requests; "
         "and over a connection-level model (h1.c: header extent and limits, blank-line rules, Content-Length and chunked body readers with "
         "trailers, keep-alive reuse): a chunked body is read back exactly for every list of chunks, an accepted message consumes exactly its own "
         "bytes and the rest is parsed independently, nothing follows a refusal, a verdict of the chunked reader is never revised by bytes that arrive "
         "later; that model is compared with the running server on pipelines "
         "of valid, corrupted and smuggling-shaped requests under one-piece, random and limit-aimed TCP segmentation",
    note="trusted: Coq kernel, c2v.py, extraction, harness glue, the RFC 9112 reader in props/h1conn.py used as oracle for concrete violations; "
         "IP-literal hosts (inet_pton) are an oracle and skipped; the remaining reject-class clauses (NUL, CTL, WS-before-colon, bare LF, "
         "missing Host) are decided by the monitors over the correspondence runs; timeouts are not modelled (a stream that ends inside a "
         "message is 'no response owed'); stream-request-body 1/2 and header-strict off are run as extra server variants (chunked-to-CGI under streaming is a known finding)",
    technique="Coq proof over executable model + differential correspondence (extracted OCaml vs C harness and vs the running server)",
    design="5/C01"),
 "C02": dict(
    text="Coq theorems over an executable model of the URL->path pipeline (burl_normalize, buffer_urldecode_path, buffer_path_simplify, "
         "http_request_parse_target, docroot join): for every target and every http-parseopts set an accepted target yields an absolute path "
         "without dot segments, and joining it to a dot-free root stays under the root; exhaustive differential correspondence over an "
         "18-symbol metacharacter alphabet x 145 parseopt sets; and over models of the mapping stages behind it (mod_alias_remap, simple-vhost, "
         "evhost, userdir, X-Sendfile/X-Sendfile2, WebDAV Destination, the symlink walk, and their composition in http_response_prepare): "
         "each stage keeps the path dot-free and under the alias target / server root / basepath / x-sendfile-docroot / source base directory, "
         "composed into one theorem from request target to physical.path; the X-Sendfile and Destination step order is re-read from the source; "
         "tied in-process (roots_h.c) and on 17 running-server configurations whose debug.log-request-handling output is compared line by line",
    note="trusted: Coq kernel, c2v.py (incl. the step-order reader c2v_roots.py), extraction, harness glue; kernel path resolution is outside the "
         "model (containment is lexical; with follow-symlink disabled the walk theorem covers links); in host-strict mode the Host needs no hypothesis "
         "(request_check_hostname/host_normalize results proved free of '/' and leading '.'); requests are also sent over HTTP/2; evhost dot-freeness and "
         "force-lowercase-filenames are covered by correspondence only; getpwnam-based userdir is not modelled (see DESIGN 5/C02, 11.9)",
    technique="Coq proof over executable model + exhaustive differential correspondence (extracted OCaml vs C harness and vs the running server)",
    design="5/C02"),
 "C15": dict(
    text="Coq theorems over an executable model of http_range.c (all Range strings, all lengths): ranges in bounds, coalescing "
         "never loses a satisfiable range, 416 iff none satisfiable, single-part slice exactness, ignore rules; model tied to the "
         "code by regenerated constants and by differential correspondence against the real http_range_rfc7233() on mem/file chunk layouts; "
         "HTTP-date model (IMF-fixdate, RFC 850, asctime; timegm) with parse-back theorems for every instant and the theorem that "
         "If-Modified-Since does not depend on the spelling of the date, the comparison direction being re-read from http_date.c; "
         "conditional requests: model of http_etag_matches and http_response_handle_cachable with the theorem that on every grammatical "
         "If-None-Match value (any number of weak/strong tags, any optional white space and empty elements) the scanner decides exactly the RFC 9110 "
         "weak/strong comparison, so a conditional GET/HEAD is 304 iff the field matches (strong when Range is present), whatever "
         "If-Modified-Since says; tied by correspondence (11000+ values and decisions per run incl. junk), an RFC monitor, and a pass on the "
         "running server's static files (validators taken from its own answers)",
    note="trusted: Coq kernel, c2v.py, extraction (ExtrOcamlBasic only), harness glue; strtoll/chunkqueue modelled; multipart framing "
         "checked by correspondence + client-side parser, not by theorem; RFC 850 two-digit years are proved for the pivot year the harness pins; "
         "the If-None-Match theorem excludes commas inside opaque tags (RFC etagc allows them; correspondence + monitor cover those)",
    technique="Coq proof over executable model + differential correspondence (extracted OCaml vs C harness, plus the running server for conditional requests) + RFC 9110 monitor",
    design="5/C15"),
 "C20": dict(
    text="Coq theorems over an executable model of the rule/template machinery (keyvalue.c subst/subst_ext/process, burl_append and its encoders, "
         "base64url codec, mod_rewrite once/repeat loop): modifier keywords set the flag they name (regenerated from source), tolower/toupper laws, "
         "esc and base64url round-trips for all byte strings, first-match-wins, literal templates verbatim, repeat bounded by the loop limit, "
         "once applies once; alias.url applies the first key in order that prefixes the URL path and replaces exactly it; simple-vhost roots are "
         "server-root + host name + document-root; tied by differential correspondence with real PCRE2 as match oracle and reference interpreters "
         "(rules; alias/simple-vhost/evhost written from the modules' documentation) as monitors",
    note="trusted: Coq kernel, c2v.py, extraction, harness glue, python reference interpreters (monitors); PCRE2 is an oracle (match outcomes are "
         "inputs of the model); evhost %N semantics are shown on the documented example and by correspondence, not by a general theorem; "
         "mod_redirect shares the rule machinery and is not run separately; re-encoding templates are kept out of rewrite-repeat (size blow-up, DESIGN 11.6)",
    technique="Coq proof over executable model + differential correspondence (extracted OCaml vs C harness with real PCRE2)",
    design="5/C20"),
 "C17": dict(
    text="Coq refinement of an executable chunk-queue model (chunk list + bytes_in/out, memory/file/temp-file chunks, layout oracle) to a FIFO "
         "byte-string spec: every deterministic operation (append mem/file/queue, steal, steal-with-tempfiles, mark_written, compact, range "
         "duplication, squash, remove-finished, reset) commutes with the spec for every layout; for every operation sequence length = bytes "
         "not consumed; append-to-tempfile under every fault script keeps old bytes + a prefix and exact accounting; tied to chunk.c by "
         "differential correspondence on random operation sequences with injected pwrite/pwritev faults",
    note="trusted: Coq kernel, extraction, harness glue (--wrap fault injector), python byte-string monitor; allocator-dependent chunk layout is an "
         "oracle argument; steal_with_tempfiles is modelled without hard write errors (those lines are judged by the monitor: error surfaced + "
         "consistent accounting); temp-file unlink/descriptor release after reset is observed (dir listing, /proc/self/fd), not proven",
    technique="Coq refinement proof over executable model + differential correspondence with fault injection (extracted OCaml vs C harness)",
    design="5/C17"),
 "C06": dict(
    text="Coq theorems over an executable model of h2.c's flow control (initial windows regenerated from source and pinned to RFC 9113, "
         "retroactive SETTINGS_INITIAL_WINDOW_SIZE delta, WINDOW_UPDATE zero/overflow errors, h2_send_cqdata clamp and deferral, the stream loop): "
         "for every history window = credit - sent and no DATA beyond the credit granted by then (stream and connection), stalled responses "
         "resume, uploads get their credit back; tied by differential correspondence on credit histories against h2.c running in-process",
    note="trusted: Coq kernel, c2v.py, extraction, harness glue (in-process connection, stub response producer), python RFC monitor; regime of the "
         "correspondence: GET /b<N> requests, client RST_STREAM (fewer than the rapid-reset guard counts), network drains every round, <= 8 streams; padded/streamed uploads are judged by the monitor only; "
         "socket-level scheduling (who gets to write when) is abstracted to rounds",
    technique="Coq invariant proof over executable model + differential correspondence (extracted OCaml vs in-process h2.c)",
    design="5/C06"),
 "C05": dict(
    text="Coq theorem every_emitted_frame_is_legal (H2/H2Trace.v): for every history of client events (SETTINGS, SETTINGS ACK, HEADERS of a complete "
         "GET, WINDOW_UPDATE, PING, RST_STREAM; any number, any order, any values) every frame the executable HTTP/2 model emits is accepted by an RFC 9113 wire "
         "tracker written in Gallina (H2Legal: HEADERS before DATA, END_STREAM once, nothing after it, payload <= peer max frame size, SETTINGS/PING "
         "acknowledged exactly when owed, nothing after an error GOAWAY, RST_STREAM/GOAWAY only naming opened streams), proved by a simulation "
         "invariant between the model's and the tracker's state; nothing_is_owed_at_the_end for live connections.  The model is tied to h2.c by "
         "running both on the same frame sequences: the model's trace must equal the implementation's frame for frame (trace correspondence, "
         "2500+ histories per run) and the extracted tracker also judges every frame h2.c emits for exhaustive (alphabet of 53 valid/invalid frames, "
         "length <= 2, 3 in thorough) and random client frame sequences incl. every piece size 1..24",
    note="outside the model's regime (uploads, invalid frames, CONTINUATION, more than 15 client resets per connection - the rapid-reset guard -, header block lengths, the server preface) the tracker "
         "is a monitor over the implementation's frames, not a theorem; trusted: Coq kernel, extraction, harness glue, tracker's reading of RFC 9113; "
         "TLS/ALPN paths not built",
    technique="Coq proof (simulation invariant: every model trace is accepted by the RFC 9113 tracker) + trace correspondence model vs h2.c + the extracted tracker as monitor over exhaustive/random frame sequences",
    design="5/C05"),
 "C07": dict(
    text="Coq proofs over an RFC 7541 specification (decoder, encoder family, Huffman trie, dynamic table) built on the tables regenerated from "
         "ls-hpack and h2.c: integer and Huffman round-trips (prefix-freeness over the regenerated code table), decode(encode) = identity with "
         "decoder table = encoder table for every header list, every representation choice, every table-size schedule and every number of blocks, "
         "id-map consistency; the implementation is compared against the extracted spec in both directions through the in-process h2 harness "
         "(requests incl. discarded blocks, responses incl. CONTINUATION and length sweeps, all single-bit corruptions)",
    note="trusted: Coq kernel, c2v.py, extraction, harness glue, python comparison (HTTP-level normalisation: repeated fields joined, surrounding "
         "whitespace, host vs :authority); ls-hpack's internal history/hash policy is not modelled (validated per block); three genuine deviations of the "
         "vendored codec are recorded as known findings",
    technique="Coq proof over executable RFC 7541 spec + differential correspondence both directions (extracted OCaml vs in-process h2.c/ls-hpack)",
    design="5/C07"),
 "C14": dict(
    text="Coq theorems over an executable model of configfile-glue.c's condition evaluation and cache (check_cond with parent/else-chain dependencies, "
         "result and local_result, clear_node, reset_item, reset, operators incl. host[:port] and CIDR): with valid attributes and a coherent cache the "
         "evaluator answers exactly what the configuration language defines and keeps the cache coherent, for every tree, every attribute assignment and "
         "every evaluation order; last contributing block wins; after an attribute rewrite followed by reset_item the cache is coherent with the new "
         "attributes (clear_node reaches children and else-chains; a block is cached only after its parent, an invariant every evaluation keeps); "
         "tied by differential correspondence on random trees x operation sequences (rewrites + "
         "reset_item, full resets, partially valid attributes) and judged against a reference of the language; and at system level: generated "
         "lighttpd.conf texts (nesting, else-chains, all operators) on the real server, where the real parser builds the tree and three response "
         "headers show which block won for each of three directives, with mod_extforward forcing reset_item on every request (props/condsys.py)",
    note="the reset theorem assumes children/prev/next links that agree with the parent links (wf2), a property of the parser's trees that is exercised "
         "through the system correspondence only; regexes restricted to anchored literals (PCRE2 in the harness); per-module patch loops and "
         "h2_init_stream inheritance not modelled; trusted: Coq kernel, extraction, harness glue, python reference",
    technique="Coq proof over executable model + differential correspondence (extracted OCaml vs C harness, and vs the running server on generated configurations) + language reference monitor",
    design="5/C14"),
 "C03": dict(
    text="Coq theorems over an executable model of the access pipeline (canonical path from C02's parse_target, mod_extforward X-Forwarded-For walk, "
         "conditional blocks by language semantics, mod_access at both hook points, auth.require prefix lookup, lower-cased physical path, existence / "
         "path-info split, static-file exclude-extensions): a served file passed mod_access on its own URL path whatever path-info trails it, is not "
         "excluded nor under an auth rule; the decision is a function of the canonical path; percent-encoding and hex case are invisible after "
         "urldecode; letter case is invisible to mod_access under force-lowercase; forwarded headers are ignored from untrusted peers and yield the last "
         "untrusted hop otherwise; tied by differential correspondence against the real lighttpd (6 configurations incl. one ruled by url.access-allow, respelling chains, trusted/untrusted "
         "loopback peers) and a marker monitor (protected files' markers must never reach a client not entitled to them)",
    note="PARTIAL: invariance of the canonical path under every respelling is proved at the decode layer only (burl_normalize composition, HTTP/2 - every fifth "
         "request is repeated over h2c and must be decided like its HTTP/1.1 twin - and the Forwarded parser are covered by correspondence/monitor, not theorems); "
         "2 known findings (url conditions are case-sensitive under force-lowercase-filenames; an X-Forwarded-For hop without address characters is skipped); "
         "symlinks, index files, mod_magnet/mod_rewrite interplay not modelled; absolute-form targets monitor-only; trusted: Coq kernel, extraction, "
         "lib/srv.py (real server over loopback), python monitor",
    technique="Coq proof over executable model + differential correspondence (extracted OCaml vs real lighttpd over loopback) + marker monitor",
    design="5/C03"),
 "C04": dict(
    text="Coq theorems over an executable model of HTTP/1.x response framing (http_response_write_prepare's Content-Length/chunked/close decision incl. HEAD, "
         "204, 205, 304 and HTTP/1.0; the chunk framing of the first segment, http_chunk_append_* and http_chunk_close) against an RFC 9112 section 6.3/7.1 "
         "recipient: for every meta combination and every way the body is produced the recipient finds the end of the body where the server put it, "
         "gets exactly the produced bytes and leaves the rest of the connection untouched (chunked round-trip for all block lists), undelimited "
         "responses close, no-body statuses carry nothing; percent-encoded control bytes never survive into the decoded path, and the path written into a "
         "Location header (ENCODING_REL_URI, table re-read from buffer.c each run) is visible ASCII for every byte string, so the value of the directory "
         "redirect cannot end its header line, and it decodes back to the path; tied by differential "
         "correspondence against the real lighttpd (3 network backends x 3 streaming modes x injected short writes/EAGAIN/EINTR x slow and tiny-buffer "
         "readers x pipelines) with a strict response-stream parser and byte comparison with the files on disk; the escape and the Location builder also run in-process "
         "against the model on every byte and on injection-shaped paths",
    note="PARTIAL: header-block serialisation (h1_send_headers) and partial-write bookkeeping are covered by the correspondence and by C17's queue "
         "theorems, not by theorems here; kernel short writes are injected by an LD_PRELOAD shim (harness/faultio.c), not enumerated; hypothesis of the "
         "main theorem: a handler's own Content-Length is truthful; trusted: Coq kernel, extraction, lib/srv.py, python strict parser",
    technique="Coq proof over executable model + differential correspondence (extracted OCaml vs real lighttpd over loopback, fault-injected) + strict RFC 9112 parser monitor",
    design="5/C04"),
 "C12": dict(
    text="Coq theorems about the size arithmetic of parsers that write into fixed or pre-sized storage, over the executable models of burl_normalize "
         "(C02) and http_range_parse (C15) and the chunk-size accumulators, with capacities and guards re-read from the source on every run "
         "(tools/c2v_safe.py): for every validated prefix and every tail the rewritten URL plus terminator fits the scratch buffer the code requests; "
         "never more than RMAX range pairs are collected (the loop guard and array/limit factors are as modelled); below the chunk-size guard the "
         "next hex digit and the +2 cannot overflow off_t; the search side runs ASan+UBSan builds of the URL and Range harnesses on inputs aimed at "
         "those limits and the real server on mutated HTTP/1.x, random HTTP/2 frame sequences and overflowing backend responses (liveness, probe, "
         "memory and descriptor growth)",
    note="PARTIAL by nature: memory safety of C is not provable here without a C semantics (VST/CompCert absent); only the listed size computations are "
         "theorems, everything else is sanitizer-observed search (not a proof); UBSan's nonnull-attribute check is off (memcpy(dst, NULL, 0) in "
         "ls-hpack); the sanitizer build of the whole server runs in the thorough tier only (there also under C01/C02/C05/C07/C10's scenarios: the "
         "ls-hpack and h2.c undefined-behaviour fixes came from those); trusted: Coq kernel, tools/c2v_safe.py, ASan/UBSan",
    technique="Coq proof over models with translator-extracted capacities/guards (regenerated each run) + sanitizer-instrumented differential search (harnesses and real server)",
    design="5/C12"),
 "C13": dict(
    text="Coq theorems over an executable model of the per-second timeout sweep of a connection (h1_check_timeout: keep-alive, read, write idle, "
         "lingering close) and of admission control (lim_conns bookkeeping, accept loop bounded by lim_conns, listening sockets disabled at 0 and "
         "re-enabled): a connection waiting in any state that hears nothing for more than its limit is released by the next sweep, over any stretch of "
         "silence longer than the limit it is gone, survivors made progress within their limit; never more than max-connections are served whatever "
         "knocks on however many listening sockets, and a waiting client is accepted once a connection is released; tied by a real-time correspondence "
         "against the real lighttpd (ten kinds of stalled clients incl. three HTTP/2 ones measured against the model's sweep count, 431/413 limits, "
         "max-connections with two listening sockets, clients that never close after a 'Connection: close' response, graceful stop during a download)",
    note="PARTIAL: HTTP/2 stream timeouts, event-handler variants (only the default is run) and the graceful path are covered by the correspondence "
         "only; the write-idle clock of the real server starts when its socket buffers are full (wider window); ~15 s of real time; trusted: Coq "
         "kernel, extraction, lib/srv.py, lib/h2c.py, wall-clock measurement with +-1.5 s windows",
    technique="Coq proof over executable model + real-time differential correspondence (extracted OCaml sweep counts vs real lighttpd timing) + limits/admission/graceful monitor",
    design="5/C13"),
 "C11": dict(
    text="Coq theorems over an executable state machine of gw_backend.c's host pool (host choice for least-connection / round-robin / hash as in "
         "gw_host_get, paired load increments/decrements, disabling on connect failure for disable-time, re-enabling by the trigger, retry bound): for "
         "every interleaving of arrivals, connect failures, completions/aborts and ticks each host's load figure equals the number of requests in flight "
         "on it (never negative, zero when idle), a request is dispatched or retried only to a host available at that moment and is never refused while some host is available (round-robin: the next available host after the one used last, wrapping around to it), a disabled host sits out "
         "its disable-time and returns afterwards; tied by differential correspondence against the real lighttpd (mod_proxy over three backends switched "
         "between serving, refusing and hanging; load figures read from mod_status; re-enabling from the error log) in real time",
    note="PARTIAL: local spawned backends with several procs, adaptive spawning, connect/read/write timeouts, sticky mode, descriptor accounting are "
         "not modelled; the hash choice itself is not predicted (allowed-set and load checks only); a request aborted by the client stays in flight "
         "until the backend lets go (as in lighttpd); scenarios cost ~15 s of real time each; trusted: Coq kernel, extraction, lib/srv.py, python backends",
    technique="Coq proof over executable state-machine model + differential correspondence (extracted OCaml vs real lighttpd with switchable backends, real-time)",
    design="5/C11"),
 "C08": dict(
    text="Coq theorem over a model regenerated from the source on every run (tools/c2v_reset.py reads the fields of struct request_st and the bodies "
         "of request_reset / request_reset_ex / request_config_reset / http_response_reset / http_response_body_clear): every field is re-initialised "
         "between requests or is one of 18 listed connection-level fields, hence two request objects with arbitrary histories that agree on those are "
         "indistinguishable after the reset; HTTP/1.x and HTTP/2 share the header parser; the behavioural side is a metamorphic search on the real "
         "lighttpd (own HTTP/2 client, lib/h2c.py): each of 12 probes alone on a fresh connection versus after random prefixes (keep-alive, pipelined, "
         "earlier and concurrent HTTP/2 streams; failing, bodied, ranged, authenticated requests), over HTTP/1.0, 1.1 and 2, must give the same status, "
         "representation headers, body and CGI environment",
    note="PARTIAL: the theorem is about struct request_st fields only (module-private plugin_ctx state, stat cache, HPACK dynamic table are covered by "
         "the search alone); the translator recognises assignments, memset, buffer_clear/reset, array_reset_data_strings, chunkqueue_reset on r->field; "
         "aborted requests and traffic on other connections are sampled lightly; trusted: Coq kernel, tools/c2v_reset.py, lib/srv.py, lib/h2c.py",
    technique="Coq proof over a translator-generated model (regenerated from source each run) + metamorphic differential search on the real lighttpd (HTTP/1.0, 1.1, 2)",
    design="5/C08"),
 "C18": dict(
    text="Coq theorems over an executable specification of the RFC 4918 tree semantics (PUT, DELETE, MKCOL, COPY with Overwrite/Depth, MOVE) and the "
         "PUT staging protocol (temporary file in the same directory, appends, rename): refused operations change nothing, MOVE = COPY + removal of the "
         "source subtree, DELETE removes exactly the subtree, and killing the server after any number of filesystem steps of a PUT leaves the target "
         "as before or with exactly the complete new content, a completed PUT leaves no temporary; tied to mod_webdav.c by differential correspondence "
         "against the real lighttpd: after every request of state-aware random and trap sequences (Destination spelled with dot segments, "
         "percent-encoding, absolute URI; onto itself; into its own subtree; repeated COPY over hard links) the directory on disk must equal the "
         "specification's tree and the status class must match; PUT atomicity under client abort and SIGKILL with a concurrent reader",
    note="PARTIAL: PROPFIND/PROPPATCH/LOCK, If-* preconditions, partial PUT and write errors are outside the specification; a Destination that is an "
         "ancestor of the source is not generated (the RFC's delete-then-copy cannot be carried out); 3 known findings about existing destinations of "
         "the other kind (file onto collection, collection onto file, collection onto collection), each reproduced by a fixed sequence; the kill points of the real "
         "PUT are sampled (random byte), not enumerated per system call; 207 Multi-Status counts as an error report; trusted: Coq kernel, extraction, "
         "lib/srv.py, python directory walker",
    technique="Coq proof over executable specification + differential correspondence (extracted OCaml vs real lighttpd/mod_webdav on a scratch directory) + kill/abort trials",
    design="5/C18"),
 "C19": dict(
    text="Coq theorems over an executable model of mod_deflate's decisions and cache (Accept-Encoding scanning and choice among allowed encodings, "
         "eligibility tests, ETag rewrite and revalidation, cache lookup / compress-to-temporary / publish-by-rename under a fault script): the coding "
         "chosen is a token the client listed and the configuration allows; coded tags differ from identity tags and are injective; for every history "
         "of source changes (each with a fresh tag), failed cache writes and kills, every body sent is the coding of the content current at that "
         "moment, hence decodes to the identity representation (zlib is a section variable assumed invertible); tied by differential correspondence "
         "against the real lighttpd (plan per request) and a monitor that decodes every body with zlib and compares it with the file on disk, "
         "across histories with file replacement, 20 % short writes / ENOSPC on cache files and SIGKILL during compression with restart",
    note="zlib itself is outside the model (assumed invertible; the monitor checks it on every response); hypothesis: the entity tag changes "
         "whenever the file changes (runs use server.stat-cache-engine = disable and replace files by rename); q-values are ignored by lighttpd "
         "(gzip;q=0 still selects gzip: listed, so not judged); a failed cache write makes the request fail (refused, not judged); temporary cache "
         "files survive a SIGKILL under their own name (never served); brotli/zstd/bzip2 not built; trusted: Coq kernel, extraction, lib/srv.py, "
         "harness/faultio.c, python zlib",
    technique="Coq proof over executable model + differential correspondence (extracted OCaml vs real lighttpd, fault-injected) + decode-and-compare monitor",
    design="5/C19"),
 "C09": dict(
    text="Coq theorems over an executable model of the request side of the gateway modules (http_cgi_encode_varname and the header loop of "
         "http_cgi_headers, request-derived RFC 3875 meta-variables, FastCGI name-value pair encoding with a strict decoder, STDIN record framing, "
         "SCGI netstring framing with a strict decoder): PARAMS decode to exactly the encoded pairs for all lengths (1-/4-byte forms and the 127/128 "
         "boundary), a client header only ever becomes CONTENT_TYPE or an HTTP_* variable, no spelling of any header yields HTTP_PROXY, STDIN "
         "records concatenate to the body and end with an empty record, the netstring parses back leaving exactly the body; tied by differential "
         "correspondence against the real lighttpd with recording FastCGI / SCGI / HTTP backends x stream-request-body 0/1/2 x bodies to 1.1 MiB "
         "(5 MiB thorough) in Content-Length / chunked framing and adversarial segmentation (incl. spooling to temporary files), PARAMS bytes "
         "compared with the model's encoding, variables with the model's, everything judged by an RFC 3875 / RFC 9110 monitor",
    note="CGI-type requests are also sent over HTTP/2 (bodies within the initial window); PARTIAL: socket/configuration-derived variables, uwsgi, CGI's execve environment, mod_proxy's rewriting and HTTP/2 request bodies are "
         "monitor-only; lighttpd answers 411 to a chunked body it would have to stream to a CGI-type backend (nothing forwarded: not judged); body "
         "spooling itself is C17's theorem; trusted: Coq kernel, extraction, lib/srv.py, lib/backend.py, python monitor",
    technique="Coq proof over executable model + differential correspondence (extracted OCaml vs real lighttpd with recording backends) + RFC 3875 monitor",
    design="5/C09"),
 "C10": dict(
    text="Coq theorems over an executable model of the backend-response side: the FastCGI record layer as mod_fastcgi.c reads it (content = exactly the "
         "STDOUT content for all records, paddings and trailing data; a stream cut anywhere before the last byte of END_REQUEST is never done) and the "
         "delimiting of HTTP-style backend bodies (Content-Length exact / short is broken, chunked bodies decode to the framed blocks); client-side "
         "framing shared with C04; tied by differential correspondence against the real lighttpd with scripted FastCGI / HTTP / SCGI backends (records "
         "of every size with padding that looks like records, interleaved STDERR/unknown records, boundary-aimed TCP segmentation, truncation/reset at "
         "aimed and random offsets, malformed framing) x stream-response-body 0/1/2, judged by C04's strict client parser and a monitor: same status, "
         "end-to-end headers and body; broken streams never arrive as complete 2xx/3xx; the next pipelined request is unaffected",
    note="every fourth scenario is also fetched by an HTTP/2 client (END_STREAM without RST_STREAM is what 'complete' means there); PARTIAL: response-head translation (Status:, Location, NPH, 1xx, trailers, hop-by-hop) is monitor-only; incremental parsing is tied to the "
         "whole-stream model by correspondence; 1 known finding (partial body under a computed Content-Length when the backend fails before headers "
         "were sent); invalid backend header lines are skipped by lighttpd and not judged; HTTP/2 clients, AJP13, uwsgi, CGI (see C04) not run here; "
         "trusted: Coq kernel, extraction, lib/srv.py, lib/backend.py, python monitor",
    technique="Coq proof over executable model + differential correspondence (extracted OCaml vs real lighttpd with scripted backends) + relay monitor",
    design="5/C10"),
 "C16": dict(
    text="Coq theorems over an executable model of mod_auth.c's decision logic (rule lookup, Basic decode incl. li_base64_dec, Digest parameter scanner, "
         "parameter/realm/algorithm/uri/response-format checks, nonce timestamp window and nonce-secret recomputation, response recomputation, "
         "credential cache query/hit/insert and periodic cleanup, plain backend): in every reachable state a request is served only with credentials "
         "the backend accepts now -- or accepted for the same rule, user and secret at most max-age+7 s ago --, bound to the request's method and target, "
         "a fresh (and with nonce-secret server-derived) nonce and an allowed algorithm; a covered path never passes; cache entries are vouched and young "
         "(for every hash function, every cache-key seed/collision pattern, every header, history and clock); tied by differential correspondence on "
         "random histories through mod_auth_uri_handler/mod_auth_periodic with the real mod_authn_file.c backend and judged by an RFC 7617/7616 monitor",
    note="MD5 is a section variable (theorems hold for any hash; extracted model runs the real MD5); 'username*' and userhash=true requests are "
         "outcome Unmodelled in the model (the monitor skips them); build has no SHA-256 (no crypto lib), so only MD5/MD5-sess run; hypothesis max-age >= 0; "
         "a Basic password is compared as a C string by the plain backend (bytes after a NUL ignored): documented, not judged; htdigest/htpasswd "
         "backends, ldap/gssapi/pam/dbi modules not modelled; trusted: Coq kernel, extraction, OCaml Digest (MD5) in the driver, harness glue, python monitor",
    technique="Coq proof over executable model + differential correspondence (extracted OCaml vs C harness) + RFC credential monitor",
    design="5/C16"),
}
NOT_YET = "no check built yet in this round (planned, see DESIGN.md section 5)"

def main():
    checks = []
    for pid in ALL:
        if pid in CLAIMED:
            c = CLAIMED[pid]
            checks.append(dict(
                property_id=pid,
                quick_cmd="./check %s --tier quick" % pid,
                thorough_cmd="./check %s --tier thorough" % pid,
                evidence_file="/verif/evidence/%s.json" % pid,
                replay_cmd_template="./check %s --replay {path}" % pid,
                engine="coq-model-correspondence",
                level_claimed=dict(category="proof", text=c["text"], design_ref=c["design"]),
                level_note=c["note"], technique=c["technique"]))
    m = dict(
        version=1,
        setup_cmd="./setup.sh",
        hooks=dict(guard="LIGHTTPD_VERIF", enable="harnesses compile /repo/src files with -DLIGHTTPD_VERIF (no source hook exists so far)",
                   baseline_off_cmd="cmake --build /repo/_build -j16 && ctest --test-dir /repo/_build -j8 --timeout 900",
                   source_commits=[], add_only=True),
        engines=[dict(name="coq-model-correspondence", path="/verif/check",
                      serves_properties=sorted(CLAIMED),
                      kind_free_text="Coq 8.16.1 theorems over executable Gallina models (coq/), models regenerated/tied by tools/c2v.py and "
                                     "by differential correspondence: extracted OCaml model vs C harnesses that #include /repo/src files")],
        checks=checks,
        notes="see DESIGN.md; known_findings.txt lists fixed/known defects",
        not_applicable=[dict(property_id=p, reason=NOT_YET) for p in ALL if p not in CLAIMED])
    with open(os.path.join(HERE, "MANIFEST.json"), "w") as f:
        json.dump(m, f, indent=1)
    print("MANIFEST.json: %d checks, %d not claimed" % (len(checks), len(m["not_applicable"])))

if __name__ == "__main__":
    main()
