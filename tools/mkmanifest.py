#!/usr/bin/env python3
"""Regenerates /verif/MANIFEST.json from the table below (run after adding a property)."""
import json, os
HERE = os.path.dirname(os.path.dirname(os.path.abspath(__file__)))
ALL = ["C%02d" % i for i in range(1, 21)]

CLAIMED = {
 "C15": dict(
    text="Coq theorems over an executable model of http_range.c (all Range strings, all lengths): ranges in bounds, coalescing "
         "never loses a satisfiable range, 416 iff none satisfiable, single-part slice exactness, ignore rules; model tied to the "
         "code by regenerated constants and by differential correspondence against the real http_range_rfc7233() on mem/file chunk layouts",
    note="trusted: Coq kernel, c2v.py, extraction (ExtrOcamlBasic only), harness glue; strtoll/chunkqueue modelled; multipart framing and "
         "conditional-GET/date rules checked by correspondence + client-side parser, not yet by theorem",
    technique="Coq proof over executable model + differential correspondence (extracted OCaml vs C harness)",
    design="5/C15"),
}
NOT_YET = "no check built yet in this round (planned, see DESIGN.md section 5)"

def main():
    checks = []
    for pid in ALL:
        if pid in CLAIMED:
            c = CLAIMED[pid]
            checks.append(dict(
                property_id=pid,
                quick_cmd="./check %s --tier quick" % pid,
                thorough_cmd="./check %s --tier thorough" % pid,
                evidence_file="/verif/evidence/%s.json" % pid,
                replay_cmd_template="./check %s --replay {path}" % pid,
                engine="coq-model-correspondence",
                level_claimed=dict(category="proof", text=c["text"], design_ref=c["design"]),
                level_note=c["note"], technique=c["technique"]))
    m = dict(
        version=1,
        setup_cmd="./setup.sh",
        hooks=dict(guard="LIGHTTPD_VERIF", enable="harnesses compile /repo/src files with -DLIGHTTPD_VERIF (no source hook exists so far)",
                   baseline_off_cmd="cmake --build /repo/_build -j16 && ctest --test-dir /repo/_build -j8 --timeout 900",
                   source_commits=[], add_only=True),
        engines=[dict(name="coq-model-correspondence", path="/verif/check",
                      serves_properties=sorted(CLAIMED),
                      kind_free_text="Coq 8.16.1 theorems over executable Gallina models (coq/), models regenerated/tied by tools/c2v.py and "
                                     "by differential correspondence: extracted OCaml model vs C harnesses that #include /repo/src files")],
        checks=checks,
        notes="see DESIGN.md; known_findings.txt lists fixed/known defects",
        not_applicable=[dict(property_id=p, reason=NOT_YET) for p in ALL if p not in CLAIMED])
    with open(os.path.join(HERE, "MANIFEST.json"), "w") as f:
        json.dump(m, f, indent=1)
    print("MANIFEST.json: %d checks, %d not claimed" % (len(checks), len(m["not_applicable"])))

if __name__ == "__main__":
    main()
