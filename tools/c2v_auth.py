from c2vlib import *


def arr_ints(t, name):
    m = re.search(r"%s\[[^\]]*\]\s*=\s*\{(.*?)\};" % re.escape(name), t, flags=re.S)
    if not m:
        problems.append("cannot find table %s" % name)
        return []
    return [int(x, 0) for x in re.findall(r"-?(?:0x[0-9a-fA-F]+|\d+)", m.group(1))]


def gen_auth(src, out):
    c = strip_comments(rd(src, "mod_auth.c"))
    api = strip_comments(rd(src, "mod_auth_api.h"))
    b64 = strip_comments(rd(src, "base64.c"))
    md = strip_comments(rd(src, "algo_md.h"))
    txt = HDR % "src/mod_auth.c, src/mod_auth_api.h, src/base64.c, src/algo_md.h"
    rv = arr_ints(b64, "base64_standard_reverse_table")
    if len(rv) != 128:
        problems.append("base64_standard_reverse_table: expected 128 entries, got %d" % len(rv))
    txt += "Definition b64s_rev : list Z := [%s]%%Z.\n" % "; ".join(str(x) for x in rv)
    for n in ("HTTP_AUTH_DIGEST_NONE", "HTTP_AUTH_DIGEST_SESS", "HTTP_AUTH_DIGEST_MD5", "HTTP_AUTH_DIGEST_SHA256", "HTTP_AUTH_DIGEST_SHA512_256"):
        m = re.search(r"\b%s\s*=\s*(0x[0-9a-fA-F]+|\d+)" % n, api)
        if not m: problems.append("cannot find %s" % n)
        txt += "Definition %s : N := %d%%N.\n" % (n, int(m.group(1), 0) if m else 255)
    txt += "Definition MD5_BINLEN : N := %d%%N.\n" % (define(api, "HTTP_AUTH_DIGEST_MD5_BINLEN", 0) or 0)
    txt += "Definition DJBHASH_INIT : N := %d%%N.\n" % (define(md, "DJBHASH_INIT", 0) or 0)
    m = re.search(r"hash\s*=\s*\(\(hash\s*<<\s*(\d+)\)\s*\+\s*hash\)\s*\^\s*s\[i\]", md)
    if not m: problems.append("djbhash step is no longer ((hash << k) + hash) ^ s[i]")
    txt += "Definition djb_shift : N := %d%%N.\n" % (int(m.group(1)) if m else 0)
    # mod_auth_check_basic: input length limit
    m = re.search(r"if\s*\(ulen\s*>\s*(\d+)\)", c)
    if not m: problems.append("mod_auth_check_basic: cannot find base64 input length limit")
    txt += "Definition basic_b64_max : N := %d%%N.\n" % (int(m.group(1)) if m else 0)
    # nonce window
    m = re.search(r"nonce\[i\+\+\]\s*!=\s*':'\s*\|\|\s*ts\s*<\s*0\s*\|\|\s*ts\s*>\s*cur_ts\s*\|\|\s*cur_ts\s*-\s*ts\s*>\s*(\d+)\s*\)", c)
    if not m: problems.append("mod_auth_digest_validate_nonce: nonce lifetime test not found in its known form")
    txt += "Definition nonce_lifetime : Z := %d%%Z.\n" % (int(m.group(1)) if m else -1)
    m = re.search(r"for\s*\(i\s*=\s*0;\s*i\s*<\s*(\d+)\s*&&\s*light_isxdigit\(nonce\[i\]\);", c)
    if not m: problems.append("validate_nonce: timestamp digit limit not found")
    txt += "Definition nonce_ts_digits : nat := %d.\n" % (int(m.group(1)) if m else 0)
    m = re.search(r"for\s*\(int\s+j\s*=\s*i\+(\d+);\s*i\s*<\s*j\s*&&\s*light_isxdigit\(nonce\[i\]\);", c)
    if not m: problems.append("validate_nonce: rnd digit limit not found")
    txt += "Definition nonce_rnd_digits : nat := %d.\n" % (int(m.group(1)) if m else 0)
    m = re.search(r"ac->max_age\s*=\s*(\d+)\s*;", c)
    if not m: problems.append("http_auth_cache_init: default max_age not found")
    txt += "Definition cache_default_max_age : Z := %d%%Z.\n" % (int(m.group(1)) if m else -1)
    m = re.search(r"if\s*\(cur_ts\s*&\s*0x([0-9a-fA-F]+)\)\s*return\s+HANDLER_GO_ON", c)
    if not m: problems.append("mod_auth_periodic: period mask not found")
    txt += "Definition cleanup_mask : Z := %d%%Z.\n" % (int(m.group(1), 16) if m else -1)
    m = re.search(r"if\s*\(cur_ts\s*-\s*ae->ctime\s*>\s*max_age\)", c)
    if not m: problems.append("mod_auth_tag_old_entries: expiry test is no longer cur_ts - ae->ctime > max_age")
    txt += "Definition cleanup_test_is_gt : bool := %s.\n" % ("true" if m else "false")
    # digest parameter names in dkv[] order
    names = re.findall(r'\{\s*CONST_STR_LEN\("([a-z*]+)"\),\s*(e_\w+)\s*\}', c)
    if len(names) < 11: problems.append("digest_kv table: expected 11 entries, got %d" % len(names))
    enum = re.search(r"enum\s+http_auth_digest_params_e\s*\{(.*?)\}", c, flags=re.S)
    order = re.findall(r"\b(e_\w+)\b", enum.group(1)) if enum else []
    txt += "Definition digest_kv : list (list N * nat) := [%s].\n" % "; ".join(
        "(%s, %d)" % (bytes_lit(k), order.index(e) if e in order else 99) for k, e in names)
    for i, e in enumerate(order):
        txt += "Definition %s : nat := %d.\n" % (e, i)
    write_if_changed(os.path.join(out, "GenAuth.v"), txt)


GENERATORS = [gen_auth]
