from c2vlib import *


def func_body(t, name):
    m = re.search(r"\b%s\s*\([^)]*\)\s*\{" % re.escape(name), t)
    if not m:
        problems.append("cannot find function %s" % name)
        return ""
    i = m.end(); depth = 1
    while i < len(t) and depth:
        depth += t[i] == "{"; depth -= t[i] == "}"; i += 1
    return t[m.end():i]


def gen_reset(src, out):
    h = strip_comments(rd(src, "request.h"))
    m = re.search(r"struct request_st \{", h)
    if not m:
        problems.append("struct request_st not found"); return
    i = m.end(); depth = 1; cur = ""; fields = []
    while i < len(h) and depth:
        c = h[i]
        if c == "{": depth += 1
        elif c == "}": depth -= 1
        elif c == ";" and depth == 1:
            mm = re.search(r"(\w+)\s*(\[[^\]]*\])?\s*$", cur.strip())
            if mm: fields.append(mm.group(1))
            cur = ""; i += 1; continue
        if depth >= 1: cur += c if depth == 1 else " "
        i += 1
    if len(fields) < 30: problems.append("request_st: only %d fields parsed" % len(fields))
    pool = strip_comments(rd(src, "reqpool.c")); glue = strip_comments(rd(src, "http-header-glue.c"))
    body = "".join(func_body(pool, f) for f in ("request_reset", "request_reset_ex", "request_config_reset")) + \
           "".join(func_body(glue, f) for f in ("http_response_reset", "http_response_body_clear"))
    reset = []
    for f in fields:
        pats = [r"r->%s(\.\w+)*\s*=[^=]" % f, r"memset\(&r->%s\b" % f, r"buffer_(clear|reset)\(&r->%s(\.\w+)*\)" % f, r"array_reset_data_strings\(&r->%s\)" % f,
                r"chunkqueue_reset\(&r->%s\)" % f, r"r->%s\.used\s*=\s*0" % f, r"http_response_body_clear"]
        if any(re.search(p, body) for p in pats[:-1]): reset.append(f)
    # which sub-buffers of uri / physical are reset
    sub = []
    for s_ in ("uri.scheme", "uri.authority", "uri.path", "uri.query", "physical.path", "physical.basedir", "physical.doc_root", "physical.rel_path"):
        if re.search(r"buffer_(clear|reset)\(&r->%s\)" % re.escape(s_), body): sub.append(s_)
    txt = HDR % "src/request.h, src/reqpool.c, src/http-header-glue.c"
    txt += "From Coq Require Import String.\nOpen Scope string_scope.\n"
    txt += "Definition request_fields : list string := [%s].\n" % "; ".join('"%s"' % f for f in fields)
    txt += "Definition fields_reset_between_requests : list string := [%s].\n" % "; ".join('"%s"' % f for f in reset)
    txt += "Definition subbuffers_reset : list string := [%s].\n" % "; ".join('"%s"' % f for f in sub)
    # both protocols use the one header parser
    h1 = strip_comments(rd(src, "request.c")); h2 = strip_comments(rd(src, "h2.c"))
    txt += "Definition h2_uses_shared_header_parser : bool := %s.\n" % ("true" if "http_request_parse_header" in h2 else "false")
    txt += "Definition h1_uses_shared_header_parser : bool := %s.\n" % ("true" if "http_request_parse_header" in h1 or "http_request_parse_headers" in h1 else "false")
    write_if_changed(os.path.join(out, "GenReset.v"), txt)


GENERATORS = [gen_reset]
