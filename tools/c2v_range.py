from c2vlib import *

def gen_range(src, out):
    t = strip_comments(rd(src, "http_range.c"))
    rmax = define(t, "RMAX", 0)
    rmaxu = define(t, "RMAX_UNSORTED", 0)
    gaps = set(int(x) for x in re.findall(r"ranges\[[^\]]+\]\s*-\s*(\d+)", t)) | \
        set(int(x) for x in re.findall(r"\bb\s*-\s*(\d+)", t))
    if len(gaps) != 1:
        problems.append("http_range.c: coalescing gap literals are not one value: %s" % sorted(gaps))
    gap = sorted(gaps)[0] if gaps else 0
    m = re.search(r'#\s*define\s+HTTP_MULTIPART_BOUNDARY\s+"([^"]*)"', t)
    if not m:
        problems.append("cannot find HTTP_MULTIPART_BOUNDARY")
    boundary = m.group(1) if m else "?"
    txt = HDR % "src/http_range.c"
    txt += "Definition RMAX : N := %d%%N.\n" % rmax
    txt += "Definition RMAX_UNSORTED : N := %d%%N.\n" % rmaxu
    txt += "Definition GAP : Z := %d%%Z.\n" % gap
    txt += "Definition BOUNDARY : list N := %s.\n" % bytes_lit(boundary)
    d = strip_comments(rd(src, "http_date.c"))
    m = re.search(r"return\s*\(\s*lmtime\s*(>=?)\s*TIME64_CAST\(ifmtime\)", d)
    if not m: problems.append("http_date_if_modified_since: comparison 'lmtime > ifmtime' not found")
    txt += "Definition ims_compare_is_strict_gt : bool := %s.\n" % ("true" if m and m.group(1) == ">" else "false")
    m2 = re.search(r"http_date_str_to_tm\(\s*ifmod\s*,\s*ifmodlen\s*,\s*&ifmodtm\s*\)\s*!=\s*ifmod\s*\+\s*ifmodlen", hd if 'hd' in dir() else strip_comments(rd(src, "http_date.c")))
    txt += "Definition ims_requires_full_match : bool := %s.\n" % ("true" if m2 else "false")
    write_if_changed(os.path.join(out, "GenRange.v"), txt)


GENERATORS = [gen_range]
