from c2vlib import *

STEPS = dict(DECODE=1, SIMPLIFY=2, UTF8=3, UTF8_400=4, BLANK=5, BLANK_SOFT=6, ABS_400=7, DOCROOT=8, LOWER=9)


def fn_body(t, name):
    m = re.search(r"\b%s\s*\([^;{]*\)\s*\{" % re.escape(name), t)
    if not m: return None
    i = m.end(); depth = 1
    while i < len(t) and depth:
        depth += (t[i] == "{") - (t[i] == "}"); i += 1
    return t[m.end():i]


def pipeline(body, var, utf8_status):
    """the path-handling calls applied to buffer `var`, in source order"""
    found = []
    pats = [(r"buffer_urldecode_path\(\s*%s\s*\)" % var, "DECODE"), (r"buffer_path_simplify\(\s*%s\s*\)" % var, "SIMPLIFY"),
            (r"buffer_is_valid_UTF8\(\s*%s\s*\)" % var, "UTF8" if utf8_status == 502 else "UTF8_400"),
            (r"buffer_to_lower\(\s*%s\s*\)" % var, "LOWER"),
            (r"array_match_value_prefix\(\s*xdocroot\s*,\s*%s\s*\)" % var, "DOCROOT")]
    for pat, name in pats:
        for m in re.finditer(pat, body):
            found.append((m.start(), name))
    for m in re.finditer(r"buffer_is_blank\(\s*%s\s*\)([^{;]*)\)\s*\{([^}]*)\}" % var, body):
        cond, blk = m.group(1), m.group(2)
        if "ptr[0] != '/'" in cond and "400" in blk: found.append((m.start(), "ABS_400"))
        elif "valid = 0" in blk: found.append((m.start(), "BLANK_SOFT"))
        elif "502" in blk: found.append((m.start(), "BLANK"))
        else: problems.append("unrecognised buffer_is_blank(%s) handling" % var)
    return [n for _, n in sorted(found)]


def gen_roots(src, out):
    glue = strip_comments(rd(src, "http-header-glue.c")); dav = strip_comments(rd(src, "mod_webdav.c"))
    txt = HDR % "src/http-header-glue.c, src/mod_webdav.c"
    txt += "Local Open Scope N_scope.\n"
    for k, v in STEPS.items():
        txt += "Definition STEP_%s : N := %d.\n" % (k, v)
    for fn, var, name, text, st in (("http_response_xsendfile", "path", "xsendfile_steps", glue, 502), ("http_response_xsendfile2", "b", "xsendfile2_steps", glue, 502),
                                    ("mod_webdav_copymove_b", "dst_rel_path", "destination_steps", dav, 400)):
        body = fn_body(text, fn)
        steps = pipeline(body, var, st) if body else []
        if not steps: problems.append("%s: path pipeline not found" % fn)
        txt += "Definition %s : list N := [%s].\n" % (name, "; ".join("STEP_" + s for s in steps))
    txt += "Definition PATH_MAX : N := 4096.   (* <limits.h> on Linux; the value the working tree is compiled with *)\n"
    write_if_changed(os.path.join(out, "GenRoots.v"), txt)


GENERATORS = [gen_roots]
