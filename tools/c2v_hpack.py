from c2vlib import *


def cstr(s):
    return '"' + s.replace('"', '""') + '"'


def pairs(t, arr):
    m = re.search(r"\b%s\s*\[[^\]]*\](?:\[\d+\])?\s*=\s*\{(.*?)\n\};" % re.escape(arr), t, flags=re.S)
    if not m:
        problems.append("cannot find %s" % arr)
        return []
    return re.findall(r"\[\s*(\w+)\s*\]\s*=\s*(\"[^\"]*\"|\w+)", m.group(1))


def gen_hpack(src, out):
    ls = strip_comments(rd(src, "ls-hpack/lshpack.c"))
    st = re.findall(r'NAME_VAL\(\s*"([^"]*)"\s*,\s*"([^"]*)"\s*\)', ls[ls.find("static_table[HPACK_STATIC_TABLE_SIZE]"):])
    if len(st) < 61:
        problems.append("static_table has %d entries" % len(st))
    st = st[:61]
    ht = rd(src, "ls-hpack/huff-tables.h")
    m = re.search(r"encode_table\[257\]\s*=\s*\{(.*?)\n\};", ht, flags=re.S)
    enc = re.findall(r"\{\s*(0x[0-9a-fA-F]+)\s*,\s*(\d+)\s*\}", m.group(1)) if m else []
    if len(enc) != 257:
        problems.append("encode_table has %d entries" % len(enc))
    lh = strip_comments(rd(src, "ls-hpack/lshpack.h"))
    m = re.search(r"enum lshpack_static_hdr_idx\s*\{(.*?)\}", lh, flags=re.S)
    names = [x.strip().split("=")[0].strip() for x in m.group(1).split(",")] if m else []
    names = [n for n in names if n and n != "LSHPACK_HDR_TOBE_INDEXED"]
    if len(names) != 62:
        problems.append("enum lshpack_static_hdr_idx has %d members" % len(names))
    h2 = strip_comments(rd(src, "h2.c"))
    lc = pairs(h2, "http_header_lc")
    fwd = pairs(h2, "http_header_lshpack_idx")
    rev = pairs(h2, "lshpack_idx_http_header")
    txt = HDR % "src/ls-hpack/lshpack.c, src/ls-hpack/huff-tables.h, src/ls-hpack/lshpack.h, src/h2.c"
    txt += "From Coq Require Import String.\nLocal Open Scope string_scope.\n"
    txt += "Definition static_table : list (list N * list N) := [\n  %s].\n" % ";\n  ".join("(%s, %s)" % (bytes_lit(a), bytes_lit(b)) for a, b in st)
    txt += "Definition huff_table : list (N * N) := [\n  %s]%%N.\n" % ";\n  ".join("(%d, %d)" % (int(c, 0), int(b)) for c, b in enc)
    txt += "Definition lshpack_hdr_names : list string := [%s].\n" % "; ".join(cstr(n) for n in names)
    txt += "Definition http_header_lc : list (string * list N) := [\n  %s].\n" % ";\n  ".join("(%s, %s)" % (cstr(k), bytes_lit(v.strip('"'))) for k, v in lc)
    txt += "Definition http_header_lshpack_idx : list (string * string) := [\n  %s].\n" % ";\n  ".join("(%s, %s)" % (cstr(k), cstr(v)) for k, v in fwd)
    txt += "Definition lshpack_idx_http_header : list (string * string) := [\n  %s].\n" % ";\n  ".join("(%s, %s)" % (cstr(k), cstr(v)) for k, v in rev)
    m = re.search(r"#define\s+DYNAMIC_ENTRY_OVERHEAD\s+(\d+)", ls)
    if not m: problems.append("cannot find DYNAMIC_ENTRY_OVERHEAD")
    txt += "Definition entry_overhead : N := %d%%N.\n" % (int(m.group(1)) if m else 0)
    m = re.search(r"#define\s+INITIAL_DYNAMIC_TABLE_SIZE\s+(\d+)", ls) or re.search(r"#define\s+LSHPACK_DEF_MAX_CAPACITY\s+(\d+)", lh) or re.search(r"INITIAL_DYNAMIC_TABLE_SIZE\s+(\d+)", rd(src, "ls-hpack/lshpack.h"))
    if not m: problems.append("cannot find initial dynamic table size")
    txt += "Definition initial_table_size : N := %d%%N.\n" % (int(m.group(1)) if m else 0)
    write_if_changed(os.path.join(out, "GenHpack.v"), txt)


GENERATORS = [gen_hpack]
