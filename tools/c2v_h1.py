from c2vlib import *


def enum_members(t, first_member):
    """ordered (name, value) of the enum whose first member is first_member"""
    m = re.search(r"enum[^{]*\{([^}]*\b%s\b[^}]*)\}" % re.escape(first_member), t, flags=re.S)
    if not m:
        problems.append("cannot find enum containing %s" % first_member)
        return []
    out = []
    val = -1
    for item in m.group(1).split(","):
        item = item.strip()
        if not item:
            continue
        mm = re.match(r"(\w+)\s*(?:=\s*(-?\w+))?", item)
        if mm.group(2) is not None:
            val = int(mm.group(2), 0)
        else:
            val += 1
        out.append((mm.group(1), val))
    return out


def gen_h1(src, out):
    kv = strip_comments(rd(src, "http_kv.c"))
    m = re.search(r"http_methods\[\]\s*=\s*\{(.*?)\};", kv, flags=re.S)
    names = re.findall(r'CONST_STR_LEN\("([^"]*)"\)', m.group(1)) if m else []
    if not names or names[-1] != "PRI":
        problems.append("http_methods[] not recognised")
    hh = strip_comments(rd(src, "http_header.h"))
    ids = dict(enum_members(hh, "HTTP_HEADER_OTHER"))
    hc = strip_comments(rd(src, "http_header.c"))
    m = re.search(r"keyvlenvalue\s+http_headers\[\]\s*=\s*\{(.*?)\n\};", hc, flags=re.S)
    ents = re.findall(r'\{\s*(HTTP_HEADER_\w+)\s*,\s*CONST_LEN_STR\("([^"]*)"\)\s*\}', m.group(1)) if m else []
    if len(ents) < 50:
        problems.append("http_headers[] not recognised")
    txt = HDR % "src/http_kv.c, src/http_header.c, src/http_header.h"
    txt += "(* method names in enum order; the last one (PRI) is HTTP_METHOD_PRI = -2 *)\n"
    txt += "Definition http_methods : list (list N) := [\n  %s].\n" % ";\n  ".join(bytes_lit(n) for n in names)
    txt += "Definition http_headers : list (N * list N) := [\n  %s].\n" % ";\n  ".join(
        "(%d%%N, %s)" % (ids.get(e, 0), bytes_lit(n)) for e, n in ents)
    for want in ("HOST", "CONTENT_LENGTH", "TRANSFER_ENCODING", "CONNECTION", "IF_MODIFIED_SINCE", "IF_NONE_MATCH", "CONTENT_TYPE",
                 "HTTP2_SETTINGS", "UPGRADE", "EXPECT", "TE", "OTHER"):
        if "HTTP_HEADER_" + want not in ids:
            problems.append("enum http_header_e lacks " + want)
        txt += "Definition ID_%s : N := %d%%N.\n" % (want, ids.get("HTTP_HEADER_" + want, 0))
    h1 = strip_comments(rd(src, "h1.c"))
    m = re.search(r"unsigned short hoff\[(\d+)\]", h1)
    if not m:
        problems.append("hoff[] size not found in h1.c")
    txt += "Definition HOFF_SIZE : N := %s%%N.\n" % (m.group(1) if m else "0")
    write_if_changed(os.path.join(out, "GenH1.v"), txt)


GENERATORS = [gen_h1]
