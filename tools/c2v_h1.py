from c2vlib import *


def enum_members(t, first_member):
    """ordered (name, value) of the enum whose first member is first_member"""
    m = re.search(r"enum[^{]*\{([^}]*\b%s\b[^}]*)\}" % re.escape(first_member), t, flags=re.S)
    if not m:
        problems.append("cannot find enum containing %s" % first_member)
        return []
    out = []
    val = -1
    for item in m.group(1).split(","):
        item = item.strip()
        if not item:
            continue
        mm = re.match(r"(\w+)\s*(?:=\s*(-?\w+))?", item)
        if mm.group(2) is not None:
            val = int(mm.group(2), 0)
        else:
            val += 1
        out.append((mm.group(1), val))
    return out


def gen_h1(src, out):
    kv = strip_comments(rd(src, "http_kv.c"))
    m = re.search(r"http_methods\[\]\s*=\s*\{(.*?)\};", kv, flags=re.S)
    names = re.findall(r'CONST_STR_LEN\("([^"]*)"\)', m.group(1)) if m else []
    if not names or names[-1] != "PRI":
        problems.append("http_methods[] not recognised")
    hh = strip_comments(rd(src, "http_header.h"))
    ids = dict(enum_members(hh, "HTTP_HEADER_OTHER"))
    hc = strip_comments(rd(src, "http_header.c"))
    m = re.search(r"keyvlenvalue\s+http_headers\[\]\s*=\s*\{(.*?)\n\};", hc, flags=re.S)
    ents = re.findall(r'\{\s*(HTTP_HEADER_\w+)\s*,\s*CONST_LEN_STR\("([^"]*)"\)\s*\}', m.group(1)) if m else []
    if len(ents) < 50:
        problems.append("http_headers[] not recognised")
    txt = HDR % "src/http_kv.c, src/http_header.c, src/http_header.h"
    txt += "(* method names in enum order; the last one (PRI) is HTTP_METHOD_PRI = -2 *)\n"
    txt += "Definition http_methods : list (list N) := [\n  %s].\n" % ";\n  ".join(bytes_lit(n) for n in names)
    txt += "Definition http_headers : list (N * list N) := [\n  %s].\n" % ";\n  ".join(
        "(%d%%N, %s)" % (ids.get(e, 0), bytes_lit(n)) for e, n in ents)
    for want in ("HOST", "CONTENT_LENGTH", "TRANSFER_ENCODING", "CONNECTION", "IF_MODIFIED_SINCE", "IF_NONE_MATCH", "CONTENT_TYPE",
                 "HTTP2_SETTINGS", "UPGRADE", "EXPECT", "TE", "OTHER"):
        if "HTTP_HEADER_" + want not in ids:
            problems.append("enum http_header_e lacks " + want)
        txt += "Definition ID_%s : N := %d%%N.\n" % (want, ids.get("HTTP_HEADER_" + want, 0))
    h1 = strip_comments(rd(src, "h1.c"))
    m = re.search(r"unsigned short hoff\[(\d+)\]", h1)
    if not m:
        problems.append("hoff[] size not found in h1.c")
    txt += "Definition HOFF_SIZE : N := %s%%N.\n" % (m.group(1) if m else "0")
    # h1_chunked / h1_recv_headers: the limits and the keep-alive decisions the connection model depends on
    body = None
    mm = re.search(r"\bh1_chunked\s*\(request_st[^)]*\)\s*\{", h1)
    if mm:
        i = mm.end(); d = 1
        while i < len(h1) and d: d += (h1[i] == "{") - (h1[i] == "}"); i += 1
        body = h1[mm.end():i]
    if not body: problems.append("h1_chunked() not found"); body = ""
    lims = set(re.findall(r"hsz\s*>=\s*(\d+)", body)) | set(re.findall(r"c->offset\s*>=\s*(\d+)", body))
    if len(lims) != 1: problems.append("h1_chunked(): chunk header line limit not found in its known form (%s)" % sorted(lims))
    txt += "Definition CHUNK_LINE_MAX : N := %s%%N.\n" % (sorted(lims)[0] if len(lims) == 1 else "0")
    cut = re.search(r"max_request_field_size\s*\)\s*\{\s*break\s*;\s*\}\s*else\s*\{(.*?)p\s*=\s*c->mem->ptr\s*\+\s*buffer_clen", body, flags=re.S)
    if not cut: problems.append("h1_chunked(): over-long trailer branch not found")
    txt += "Definition trailer_cut_clears_keepalive : bool := %s.\n" % ("true" if cut and re.search(r"\br->keep_alive\s*=\s*0\s*;", cut.group(1)) else "false")
    txt += "Definition trailer_found_over_limit_clears_keepalive : bool := %s.\n" % (
        "true" if re.search(r"if\s*\(\s*hsz\s*>\s*\(off_t\)\s*r->conf\.max_request_field_size\s*\)\s*r->keep_alive\s*=\s*0\s*;", body) else "false")
    txt += "Definition lone_cr_after_request_waits : bool := %s.\n" % (
        "true" if re.search(r"if\s*\(\s*discard_blank\s*&&\s*1\s*==\s*clen\s*&&\s*c->mem->ptr\[c->offset\]\s*==\s*'\\r'\s*\)\s*continue\s*;", h1) else "false")
    fb = re.search(r"\(\(unsigned char \*\)c->mem->ptr\)\[c->offset\]\s*<\s*(\d+)", h1)
    if not fb: problems.append("h1_recv_headers(): first-byte test not found")
    txt += "Definition FIRST_BYTE_MIN : N := %s%%N.\n" % (fb.group(1) if fb else "0")
    lg = re.search(r"#\s*define\s+HTTP_LINGER_TIMEOUT\s+(\d+)", h1)
    if not lg: problems.append("h1.c: HTTP_LINGER_TIMEOUT not found")
    rel = re.search(r"if\s*\(\s*r->state\s*==\s*CON_STATE_CLOSE\s*\)\s*\{\s*if\s*\(\s*cur_ts\s*-\s*con->close_timeout_ts\s*>\s*HTTP_LINGER_TIMEOUT\s*\)\s*changed\s*=\s*1\s*;", h1)
    txt += "Definition HTTP_LINGER_TIMEOUT : Z := %s%%Z.\n" % (lg.group(1) if lg else "0")
    txt += "Definition lingering_close_is_released_by_the_sweep : bool := %s.\n" % ("true" if rel else "false")
    write_if_changed(os.path.join(out, "GenH1.v"), txt)


GENERATORS = [gen_h1]
