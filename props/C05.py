"""C05 -- HTTP/2: every emitted frame is legal for the connection and stream state.
Tracker: coq/H2/H2Legal.v (extracted, judges the implementation's frames); model: coq/H2/H2Flow.v; harness: harness/h2_h.c."""
import itertools, os, re
import vlib
import C06

LINK = C06.LINK
CLAUSE = {
    1: "a frame was sent after a GOAWAY carrying an error code", 2: "frame payload larger than the peer's SETTINGS_MAX_FRAME_SIZE",
    3: "HEADERS/DATA on a stream the client never opened", 4: "DATA before the response HEADERS", 5: "HEADERS/DATA after END_STREAM or RST_STREAM was sent on the stream",
    6: "header block not contiguous (CONTINUATION expected / unexpected)", 7: "second HEADERS on a stream without END_STREAM", 8: "RST_STREAM on stream 0 or on an idle stream",
    9: "SETTINGS ACK without an outstanding client SETTINGS", 10: "PING ACK without an outstanding client PING", 11: "GOAWAY last-stream-id above any stream the client opened",
    12: "HEADERS/DATA on a stream the client had reset", 13: "malformed WINDOW_UPDATE (zero increment / wrong length / idle stream)", 14: "PUSH_PROMISE sent",
    15: "a stream opened after a connection error was processed", 16: "malformed control frame (length / stream id)",
    20: "connection error (RFC 9113 5.4.1) not answered by GOAWAY or close", 21: "client SETTINGS never acknowledged", 22: "client PING never echoed",
    23: "a complete request on a healthy connection never got a complete response", 24: "response header block left open",
}

# frame alphabet: {n} = a new (next odd) stream id, {s} = the most recently opened stream, {c} = an old (completed) stream id
ALPHABET = [
    "H:{n}:5:GET:/b10", "H:{n}:5:GET:/b0", "H:{n}:5:GET:/n", "H:{n}:5:GET:/e", "H:{n}:4:POST:/u", "H:{n}:4:GET:/b0", "H:{n}:4:GET:/n", "H:{n}:4:HEAD:/b10", "H:{n}:5:HEAD:/b10", "D:{s}:1:5", "D:{s}:0:3", "D:{s}:9:5:2", "H:{n}:5:GET:/b3000",
    "W:0:10", "W:{s}:10", "G", "S:", "S:4=100", "S:5=20000", "S:1=0", "SA", "R:{s}:8", "Y:2:0:{s}:0000000010", "Y:11:0:0:00", "Y:16:0:0:00000001753d31",
    # invalid / hostile
    "D:0:0:5", "H:2:5:GET:/b1", "H:{c}:5:GET:/b1", "D:99:0:5", "W:0:0", "W:{s}:0", "W:99:5", "Y:6:0:0:0102", "Y:6:0:1:0102030405060708", "Y:4:0:0:0000000000",
    "Y:4:1:0:00", "Y:4:0:1:", "R:0:8", "R:99:8", "Y:3:0:{s}:00", "Y:9:4:{s}:00", "H:{n}:1:GET:/b1", "Y:5:4:{s}:0000000200", "X:004e20000000000001", "Y:7:0:0:0000000000000000",
    "Y:8:0:0:00", "S:5=100", "S:2=2", "S:4=2147483648", "Y:2:0:0:0000000010", "Y:1:5:{n}:ff", "Y:1:25:{n}:0000000010", "Y:0:8:{s}:05", "D:{c}:1:1",
]


def expand(seq):
    """instantiate the stream-id placeholders; returns the action list, ending with ample flow-control credit
    (a response stalled on a window is C06's business, not a missing response)"""
    nxt = 1; last = 1; old = 1
    out = []
    for a in seq:
        if "{n}" in a:
            a = a.replace("{n}", str(nxt)); old = last; last = nxt; nxt += 2
        a = a.replace("{s}", str(last)).replace("{c}", str(old))
        out.append(a)
    return out + ["S:4=1000000", "W:0:1000000"]


def gen_cases(ctx):
    rng = ctx.rng
    thorough = ctx.tier == "thorough"
    cases = []
    dist = {}
    pre = ["P", "SA"]
    k = 2
    for seq in itertools.product(ALPHABET, repeat=1):
        cases.append(" ".join(pre + expand(seq)))
    for seq in itertools.product(ALPHABET, repeat=2):
        cases.append(" ".join(pre + expand(seq)))
    dist["exhaustive_len<=2"] = len(cases)
    k0 = len(cases)
    if thorough:
        for seq in itertools.product(ALPHABET, repeat=3):
            cases.append(" ".join(pre + expand(seq)))
    else:
        for _ in range(9000):
            cases.append(" ".join(pre + expand([rng.choice(ALPHABET) for _ in range(3)])))
    dist["len3"] = len(cases) - k0
    # a well-formed request on a fresh stream after the noise must still be answered completely (when no connection error happened)
    k0 = len(cases)
    valid = ALPHABET[:25]
    for _ in range(40000 if thorough else 6000):
        n = rng.randrange(3, 14)
        seq = [rng.choice(valid) if rng.random() < 0.85 else rng.choice(ALPHABET) for _ in range(n)] + ["H:{n}:5:GET:/b10"]
        acts = expand(seq)
        if rng.random() < 0.3:
            acts = ["CA:%d" % rng.choice([1, 2, 3, 5, 8, 9, 10, 17])] + acts
        cases.append(" ".join((["P"] if rng.random() < 0.5 else pre) + acts))
    dist["random_long_with_final_request"] = len(cases) - k0
    # the concurrency limit: hold 8 streams open (no stream credit), then a 9th and frames on the refused id
    k0 = len(cases)
    hold = ["S:4=0"] + ["H:%d:5:GET:/b3000" % (2 * i + 1) for i in range(8)]
    after = ["H:17:5:GET:/b10", "H:17:4:POST:/u", "D:17:1:5", "D:17:0:5", "W:17:10", "R:17:8", "H:19:5:GET:/b10", "R:1:8", "R:3:8", "W:1:100000", "G", "SA",
             "Y:2:0:17:0000000010", "H:17:5:GET:/b10"]
    for pre2 in (["P", "SA"], ["P"]):
        for a in after:
            for b in after:
                for c in (after if thorough else [rng.choice(after)]):
                    cases.append(" ".join(pre2 + hold + [a, b, c, "S:4=1000000", "W:0:1000000"]))
    dist["concurrency_limit"] = len(cases) - k0
    # every 2-cut position style: deliver everything in pieces of k bytes, for k in 1..12
    k0 = len(cases)
    base = ["P SA H:1:5:GET:/b10 H:3:4:POST:/u D:3:0:3 G D:3:1:5 S:4=100 W:0:10 H:5:5:GET:/b3000 W:5:5000 R:1:8",
            "P H:1:1:GET:/b1 Y:9:4:1: G H:3:5:GET:/b10", "P SA H:1:5:GET:/b10 D:0:0:5 H:3:5:GET:/b10"]
    for b in base:
        for c in range(1, 25):
            t = b.split()
            cases.append(" ".join([t[0], "CA:%d" % c] + t[1:]))
    dist["segmentations"] = len(cases) - k0
    ctx.cov["distribution"]["h2frames"] = dist
    return cases


def responses(impl_line):
    """per stream: (response header seen, DATA octets, END_STREAM seen, RST code) from a trace line"""
    st = {}
    for tok in impl_line.split():
        if tok[0] != "s" or tok.endswith(":"): continue
        t, f, sid, ln, a, a2 = tok[1:].split(".")
        t = int(t); f = int(f, 16); sid = int(sid)
        if sid == 0: continue
        e = st.setdefault(sid, [False, 0, False, None])
        if t == 1: e[0] = True; e[2] = e[2] or bool(f & 1)
        elif t == 0: e[1] += int(ln); e[2] = e[2] or bool(f & 1)
        elif t == 3: e[3] = int(a)
    return st


def describe(case):
    return "client frames: " + case


def canon_trace(line):
    """frames of a trace line in comparable form: action markers, the server preface (its SETTINGS and the connection WINDOW_UPDATE that
    follows) and HPACK block lengths removed; argument fields kept only where the frame type has one"""
    out = []
    seen_wu = False
    for tok in line.partition(" |")[0].split():
        if tok.endswith(":") or tok[0] not in "cs": continue
        t, f, sid, ln, a, a2 = tok[1:].split(".")
        t = int(t); fl = int(f, 16)
        if tok[0] == "s" and t == 4 and not fl & 1: continue
        if tok[0] == "s" and t == 8 and sid == "0" and not seen_wu:
            seen_wu = True; continue
        if t == 1: ln = "0"
        keep_a = t in (7, 8) or (t == 3 and tok[0] == "s") or (t == 4 and tok[0] == "c" and not fl & 1)     # (the model has one RST_STREAM event for every error code a client may give)
        out.append((tok[0], t, fl, sid, ln, a if keep_a else "x", a2 if t == 7 else "x"))
    return out


def run(ctx):
    ok = ctx.prove()
    cases = []
    cp = os.path.join(vlib.VERIF, "corpus", "C05.txt")
    if os.path.exists(cp):
        cases += [l.strip() for l in open(cp) if l.strip() and not l.startswith("#")]
    cases += gen_cases(ctx)
    exe = vlib.cc_harness(ctx, "h2_h", link_srcs=LINK, sanitize=(ctx.tier == "thorough"))
    tracker = vlib.model_driver("C05")
    rc_i, out_i, err_i = vlib.run_lines_sharded(exe, cases, args=["trace"])
    ctx.cov["evaluations"] += len(cases)
    if rc_i != 0:
        n0 = len([x for x in out_i if x != "<crash>"])
        ctx.violate("h2-harness-crash", "h2.c crashed or aborted in the harness (exit %d): %s" % (rc_i, err_i[-1200:]),
                    dict(kind="crash", stderr=err_i[-4000:], harness="h2_h"))
    rc_t, out_t, err_t = vlib.run_lines_sharded(tracker, out_i)
    n = min(len(cases), len(out_i), len(out_t))
    cats = {}
    for i in range(n):
        v = out_t[i]
        if v == "OK": continue
        if out_i[i] == "<crash>": continue
        key = v
        if key not in cats or len(cases[i]) < len(cases[cats[key]]):
            cats[key] = i
    # segmentation independence: the same frames delivered in pieces give the same responses
    base = {}
    for i in range(n):
        t = cases[i].split()
        if len(t) > 1 and t[1].startswith("CA:"):
            key = " ".join([t[0]] + t[2:])
            base.setdefault(key, []).append(i)
    seg_checked = 0
    unsplit = {c: i for i, c in enumerate(cases[:n])}
    for key, idxs in base.items():
        ref = unsplit.get(key)
        if ref is None:
            ref = idxs[0]
        r0 = responses(out_i[ref]); e0 = out_i[ref].partition(" |end ")[2]
        for i in idxs:
            seg_checked += 1
            if responses(out_i[i]) != r0 or out_i[i].partition(" |end ")[2] != e0:
                k = "SEG"
                if k not in cats or len(cases[i]) < len(cases[cats[k]]):
                    cats[k] = i
    for key, i in sorted(cats.items())[:6]:
        if key == "SEG":
            why = "responses depend on how the byte stream is split across reads (compare with the unsplit run)"
        elif key.startswith("V"):
            why = "RFC 9113 tracker clause %s: %s" % (key[1:], CLAUSE.get(int(key[1:]), "?"))
        else:
            why = "tracker could not read the trace (%s)" % key
        ctx.violate("h2frames:" + key, "C05 fails on the implementation: %s; %s; frames: %s" % (why, describe(cases[i]), out_i[i][:700]),
                    dict(kind="monitor", case=cases[i], input=describe(cases[i]), impl=out_i[i][:4000], why=why, harness="h2_h trace"))
    found = bool(cats)
    # the whole-trace theorem (H2/H2Trace.v) speaks about H2Trace.trace: the frames of a history as the model renders them.  In the model's
    # regime that rendering must be the trace the implementation produces, frame for frame (HPACK block lengths and the two frames of the
    # server preface aside), so that the theorem is about the traces the tracker judges above.
    import random as _random
    class _G: pass
    g = _G(); g.rng = _random.Random(ctx.seed * 7919 + 5); g.tier = ctx.tier; g.cov = dict(distribution={})
    reg = [c for c in C06.gen_cases(g) if " D:" not in c and "POST" not in c]
    reg = reg if ctx.tier == "thorough" else reg[:2500]
    rc_r, out_r, err_r = vlib.run_lines_sharded(exe, reg, args=["trace"])
    rc_m, out_m, err_m = vlib.run_lines_sharded(tracker, ["T " + c for c in reg])
    ctx.cov["evaluations"] += len(reg)
    tdis = []; toracle = 0; tlegal = 0
    for i in range(min(len(reg), len(out_r), len(out_m))):
        if out_m[i] == "ORACLE":
            toracle += 1; continue
        mt, _, verdict = out_m[i].partition(" |")
        if verdict != "legal":
            tdis.append((i, "the model's own trace is judged %s by the tracker, against theorem every_emitted_frame_is_legal_in_every_history" % verdict)); continue
        tlegal += 1
        if canon_trace(out_r[i]) != canon_trace(mt):
            tdis.append((i, "trace differs from H2Trace.trace"))
    for i, why in tdis[:2]:
        ctx.violate("h2trace-correspondence", "C05: %s; %s; impl: %s; model: %s" % (why, describe(reg[i]), out_r[i][:600], out_m[i][:600]),
                    dict(kind="trace-correspondence", case=reg[i], input=describe(reg[i]), impl=out_r[i][:4000], model=out_m[i][:4000], why=why, harness="h2_h trace"))
    found = found or bool(tdis)
    ctx.cov["correspondence"]["h2trace"] = dict(cases=len(reg), disagreements=len(tdis), outside_model=toracle, model_traces_legal=tlegal)
    ctx.cov["correspondence"]["h2frames"] = dict(cases=len(cases), tracker_violations=len(cats), segmentation_pairs_checked=seg_checked)
    ctx.cov["distinct_nontrivial"] += len(set(c for c, o in zip(cases, out_i) if " s1." in o or " s3." in o or " s7." in o))
    ctx.cov["rule"] = ("client frame sequences after the preface: exhaustive over a %d-symbol alphabet of valid and invalid frames (every type; stream 0, open, closed, idle, "
                       "even ids; bad lengths; unknown types) up to length 2 (3 in thorough; sampled in quick), random sequences of 3-13 mostly valid frames followed by a "
                       "well-formed request, deliveries in pieces of 1..24 bytes; every server frame judged by the extracted tracker H2Legal.legal; non-trivial = the "
                       "server emitted HEADERS, RST_STREAM or GOAWAY" % len(ALPHABET))
    ctx.add_samples([dict(case=c[:300], impl=o[:400]) for c, o in list(zip(cases, out_i))[:: max(1, len(cases) // 5)]][:5])
    if not ok and not found:
        ctx.proof_broken_violation()


def replay(ctx, path):
    import json, shutil
    obj = json.load(open(path))
    case = obj["replay"].get("case")
    exe = vlib.cc_harness(ctx, "h2_h", link_srcs=LINK)
    tracker = vlib.model_driver("C05")
    _, oi, _ = vlib.run_lines(exe, [case], args=["trace"]); _, ot, _ = vlib.run_lines(tracker, oi)
    print("input:", describe(case)); print("impl :", oi); print("tracker:", ot)
    same = True
    if obj["replay"].get("kind") == "trace-correspondence":
        _, om, _ = vlib.run_lines(tracker, ["T " + case])
        print("model:", om)
        same = bool(om) and om[0] != "ORACLE" and om[0].endswith("|legal") and canon_trace(oi[0]) == canon_trace(om[0].partition(" |")[0])
    shutil.rmtree(ctx.scratch, ignore_errors=True)
    return 0 if ot == ["OK"] and same else 1
