"""C08 -- the response depends only on its request; same answer over HTTP/1.x and HTTP/2.
Theorem side: coq/Reset/*.v over coq/Gen/GenReset.v (regenerated from request.h / reqpool.c / http-header-glue.c each run).
Search side (this file): metamorphic runs on the real lighttpd -- each probe alone on a fresh connection versus after prefixes of other
requests, as HTTP/1.0, HTTP/1.1 and HTTP/2 (lib/h2c.py), must give the same status, representation headers, body and CGI environment."""
import base64, hashlib, json, os, re, socket, sys, time
import vlib, srv, h2c, backend
sys.path.insert(0, os.path.join(vlib.VERIF, "props"))
import C04 as H1

CONF = r'''
server.feature-flags = ("server.h2proto" => "enable", "server.h2c" => "enable")
server.stream-request-body = 2
server.max-keep-alive-requests = 1000
cgi.assign = (".sh" => "/bin/sh")
auth.backend = "plain"
auth.backend.plain.userfile = "@ROOT@/users"
auth.require = ("/priv/" => ("method" => "basic", "realm" => "r", "require" => "valid-user"))
proxy.server = ("/px/" => (("host" => "127.0.0.1", "port" => %d)))
mimetype.assign = (".txt" => "text/plain", ".bin" => "application/octet-stream")
index-file.names = ()
'''
FILES = {
    "/a.txt": b"alpha\n" * 300, "/b.bin": bytes(range(256)) * 40, "/priv/p.txt": b"private\n", "/dir/x.txt": b"x\n",
    "/cgi/env.sh": b'printf "Content-Type: text/plain\\r\\n\\r\\n"\nenv | grep -E "^(HTTP_|CONTENT_|QUERY_STRING|REQUEST_|SCRIPT_NAME|PATH_INFO|REMOTE_USER|AUTH_TYPE|SERVER_PROTOCOL|REDIRECT_)" | sort\n',
    "/cgi/echo.sh": b'printf "Content-Type: application/octet-stream\\r\\n\\r\\n"\ncat\n',
}
AUTH = b"Basic " + base64.b64encode(b"alice:secret")
KEEP = {b"content-type", b"etag", b"last-modified", b"content-length", b"content-range", b"location", b"www-authenticate", b"accept-ranges", b"allow", b"content-encoding", b"vary"}


def probes():
    """(name, method, path, headers, body)"""
    return [
        ("static", b"GET", b"/a.txt", [], None),
        ("static-head", b"HEAD", b"/b.bin", [], None),
        ("range", b"GET", b"/b.bin", [(b"Range", b"bytes=10-99")], None),
        ("if-range-stale", b"GET", b"/a.txt", [(b"Range", b"bytes=0-4"), (b"If-Range", b'"stale-validator"')], None),
        ("missing", b"GET", b"/nothing-here", [], None),
        ("dir-redirect", b"GET", b"/dir", [], None),
        ("priv-noauth", b"GET", b"/priv/p.txt", [], None),
        ("priv-auth", b"GET", b"/priv/p.txt", [(b"Authorization", AUTH)], None),
        ("env", b"GET", b"/cgi/env.sh/pi?x=1&y=2", [(b"X-Probe", b"one"), (b"Accept", b"*/*")], None),
        ("echo", b"POST", b"/cgi/echo.sh", [(b"Content-Type", b"text/x-test")], b"request body 12345\n" * 20),
        ("inm", b"GET", b"/a.txt", [(b"If-None-Match", b'"nomatch"')], None),
        ("query-static", b"GET", b"/a.txt?v=2", [(b"X-Other", b"zzz")], None),
    ]


def canon(status, headers, body, version):
    h = sorted((k, v) for k, v in headers if k in KEEP and k != b"accept-ranges")     # Accept-Ranges is not sent to HTTP/1.0 clients (Range is per-version)
    if body is not None and b"SERVER_PROTOCOL=" in body:
        h = [x for x in h if x[0] != b"content-length"]                               # the environment dump is normalised below
        body = re.sub(rb"SERVER_PROTOCOL=[^\n]*\n", b"", body)
        body = re.sub(rb"HTTP_(CONNECTION|HOST)=[^\n]*\n", b"", body)      # connection management / authority spelling are per-version
    return (status, tuple(h), hashlib.sha1(body or b"").hexdigest() if body is not None else None, len(body or b""))


def h1_request(p, ver, last):
    name, m, path, hs, body = p
    r = m + b" " + path + b" HTTP/" + ver + b"\r\nHost: h\r\n"
    for k, v in hs: r += k + b": " + v + b"\r\n"
    if body is not None: r += b"Content-Length: %d\r\n" % len(body)
    if ver == b"1.0" and not last: r += b"Connection: keep-alive\r\n"
    if ver == b"1.1" and last: r += b"Connection: close\r\n"
    return r + b"\r\n" + (body or b"")


def run_h1(s, seq, ver, pipelined):
    """seq: list of probes; returns list of canon results (None when unanswered)"""
    so = s.connect(timeout=8.0); out = []
    try:
        methods = [p[1] for p in seq]
        if pipelined:
            so.sendall(b"".join(h1_request(p, ver, i == len(seq) - 1) for i, p in enumerate(seq)))
            data = b""
            while True:
                try: c = so.recv(65536)
                except socket.timeout: break
                if not c: break
                data += c
            try: rs = H1.parse_stream(data, methods, True)
            except H1.Bad as e: return [("malformed", str(e))]
            return [canon(st, [(k, v) for k, vs in h.items() for v in vs], b if methods[i] != b"HEAD" else None, ver) for i, (st, h, b, fr, kp) in enumerate(rs)]
        data = b""
        for i, p in enumerate(seq):
            so.sendall(h1_request(p, ver, i == len(seq) - 1))
            t0 = time.time(); rs = None
            while time.time() - t0 < 8:
                try:
                    rs = H1.parse_stream(data, methods[:i + 1], False)
                    if len(rs) == i + 1 and not (rs[-1][3] == "close" or (not rs[-1][4] and False)): break
                except H1.Bad: pass
                try: c = so.recv(65536)
                except socket.timeout: break
                if not c:
                    try: rs = H1.parse_stream(data, methods[:i + 1], True)
                    except H1.Bad: rs = None
                    break
                data += c
            if not rs or len(rs) < i + 1: break
            if not rs[-1][4]: break
        try: rs = H1.parse_stream(data, methods, True)
        except H1.Bad as e: return [("malformed", str(e))]
        return [canon(st, [(k, v) for k, vs in h.items() for v in vs], b if methods[i] != b"HEAD" else None, ver) for i, (st, h, b, fr, kp) in enumerate(rs)]
    finally:
        so.close()


def run_h2(s, seq, concurrent, idx42):
    c = h2c.Conn(s.port)
    try:
        sids = []
        res = []
        for p in seq:
            name, m, path, hs, body = p
            sid = c.send_request(m, path, hs, body, name_index={b"if-range": 42} if idx42 else None)
            sids.append(sid)
            if not concurrent: c.wait([sid])
        c.wait(sids)
        out = []
        for sid, p in zip(sids, seq):
            st = c.streams[sid]
            if st["headers"] is None: out.append(None); continue
            status = int(dict(st["headers"]).get(b":status", b"0"))
            out.append(canon(status, [(k, v) for k, v in st["headers"] if not k.startswith(b":")], st["body"] if p[1] != b"HEAD" else None, b"2"))
        return out
    finally:
        c.close()


def run(ctx):
    ok = ctx.prove()
    srv.build_server(False)
    be = backend.HttpBackend()
    be.script(1, [(b"HTTP/1.1 200 OK\r\nContent-Length: 2\r\n\r\nok", 0)], "close")
    s = srv.Server(ctx, "c08", CONF % be.port, files=FILES, modules=["mod_auth", "mod_authn_file", "mod_cgi", "mod_proxy"], sanitize=(ctx.tier == "thorough"))
    with open(os.path.join(s.root, "users"), "w") as f: f.write("alice:secret\n")
    s.start()
    P = probes(); found = False; ncmp = 0; nrun = 0
    try:
        # references: each probe alone on a fresh connection, per protocol
        ref = {}
        for p in P:
            ref[(p[0], "1.1")] = run_h1(s, [p], b"1.1", False)[0]
            ref[(p[0], "1.0")] = run_h1(s, [p], b"1.0", False)[0]
            ref[(p[0], "2")] = run_h2(s, [p], False, True)[0]
            nrun += 3
        def same(a, b, pname, cross):
            if a is None or b is None: return a == b
            if cross and pname in ("range", "if-range-stale") : return True      # Range is not defined for HTTP/1.0 (compared within a version only)
            sa, ha, ba, la = a; sb, hb, bb, lb = b
            ha = tuple(x for x in ha if not (cross and x[0] in (b"content-length",) and sa in (301, 401, 404))); hb = tuple(x for x in hb if not (cross and x[0] in (b"content-length",) and sb in (301, 401, 404)))
            return (sa, ha, ba) == (sb, hb, bb) or (cross and sa == sb and sa in (301, 401, 404) and ha == hb)
        for p in P:
            for v in ("1.0", "2"):
                ncmp += 1
                if not same(ref[(p[0], "1.1")], ref[(p[0], v)], p[0], True):
                    ctx.violate("c08:cross-protocol:" + p[0], "C08 fails on the implementation: probe %s answered differently over HTTP/1.1 and HTTP/%s: %r vs %r" % (p[0], v, ref[(p[0], "1.1")], ref[(p[0], v)]),
                                dict(kind="monitor", probe=p[0], versions=["1.1", v], a=repr(ref[(p[0], "1.1")]), b=repr(ref[(p[0], v)]))); found = True
        n = 120 if ctx.tier == "quick" else 1500
        for it in range(n):
            k = ctx.rng.choice([1, 2, 3, 5]); pre = [ctx.rng.choice(P) for _ in range(k)]; probe = ctx.rng.choice(P)
            mode = ctx.rng.choice(["h1.1-seq", "h1.1-pipe", "h1.0-seq", "h2-seq", "h2-conc", "h2-seq-lit"])
            seq = pre + [probe]
            if mode.startswith("h1"):
                ver = b"1.1" if "1.1" in mode else b"1.0"
                res = run_h1(s, seq, ver, mode.endswith("pipe")); vkey = ver.decode()
            else:
                res = run_h2(s, seq, mode == "h2-conc", mode != "h2-seq-lit"); vkey = "2"
            nrun += len(seq)
            if res and res[0] and res[0][0] == "malformed":
                ctx.violate("c08:malformed-stream", "C08: malformed response stream after %s in mode %s: %s" % ([q[0] for q in seq], mode, res[0][1]),
                            dict(kind="monitor", mode=mode, seq=[q[0] for q in seq], why=res[0][1])); found = True; continue
            for i, (q, r) in enumerate(zip(seq, res)):
                if r is None: continue
                ncmp += 1
                if not same(ref[(q[0], vkey)], r, q[0], False):
                    ctx.violate("c08:history:" + q[0], "C08 fails on the implementation: probe %s answered %r after the prefix %s (mode %s) but %r alone on a fresh connection"
                                % (q[0], r, [x[0] for x in seq[:i]], mode, ref[(q[0], vkey)]),
                                dict(kind="monitor", mode=mode, seq=[x[0] for x in seq[:i + 1]], got=repr(r), alone=repr(ref[(q[0], vkey)]))); found = True
                    break
        # a predecessor whose chunked body is still arriving when the (streaming) backend has already answered
        be.early.add(1)
        for it in range(6 if ctx.tier == "quick" else 40):
            probe = ctx.rng.choice([q for q in P if q[4] is None])
            so = s.connect(timeout=6.0)
            try:
                so.sendall(b"POST /px/r?id=1 HTTP/1.1\r\nHost: h\r\nTransfer-Encoding: chunked\r\n\r\n5\r\nhello\r\n")
                data = b""; t0 = time.time()
                while b"\r\n\r\nok" not in data and time.time() - t0 < 3:
                    try: c = so.recv(65536)
                    except socket.timeout: break
                    if not c: break
                    data += c
                try:
                    so.sendall(b"5\r\nworld\r\n0\r\n\r\n" + h1_request(probe, b"1.1", True))
                    while True:
                        try: c = so.recv(65536)
                        except socket.timeout: break
                        if not c: break
                        data += c
                except OSError: pass
            finally: so.close()
            nrun += 2
            try: rs = H1.parse_stream(data, [b"POST", probe[1]], True)
            except H1.Bad as e: rs = None; err = str(e)
            if rs is None:
                ctx.violate("c08:early-response:malformed", "C08: after a chunked upload whose backend answered early, the connection carried a malformed stream: %s" % err,
                            dict(kind="monitor", scenario="chunked-upload-early-response", probe=probe[0], why=err)); found = True
            elif len(rs) >= 2:
                st, h, b, fr, kp = rs[1]; got = canon(st, [(k, v) for k, vs in h.items() for v in vs], b if probe[1] != b"HEAD" else None, b"1.1"); ncmp += 1
                if not same(ref[(probe[0], "1.1")], got, probe[0], False):
                    ctx.violate("c08:early-response:" + probe[0], "C08 fails on the implementation: after a chunked upload whose backend answered before the body was complete, probe %s on the same "
                                "connection got %r instead of %r (the rest of the previous body was taken for a request?)" % (probe[0], got, ref[(probe[0], "1.1")]),
                                dict(kind="monitor", scenario="chunked-upload-early-response", probe=probe[0], got=repr(got), alone=repr(ref[(probe[0], "1.1")]))); found = True
        alive = s.alive()
    finally:
        rc = s.stop(); be.stop()
    if (not alive) or rc in (98, 99):
        ctx.violate("c08-server-crash", "lighttpd died: %s" % s.log()[-500:], dict(kind="crash", log=s.log()[-1500:])); found = True
    ctx.cov["correspondence"]["metamorphic"] = dict(requests=nrun, comparisons=ncmp)
    ctx.cov["evaluations"] += nrun; ctx.cov["distinct_nontrivial"] += ncmp
    ctx.cov["rule"] = ("12 probes (static GET/HEAD, Range, If-Range with a stale validator -- its name HPACK-indexed (static 42) or literal --, 404, directory redirect, protected "
                       "path without and with credentials, CGI environment dump with path-info/query/headers, POST echo, If-None-Match, query on a static file) each alone on a "
                       "fresh connection per protocol (HTTP/1.0, 1.1, 2) and after 1-5 random prefix requests sequentially on keep-alive, pipelined, as earlier HTTP/2 streams or "
                       "concurrent ones; compared: status, representation headers, body hash, CGI environment (minus SERVER_PROTOCOL / connection fields)")
    if not ok and not found:
        ctx.proof_broken_violation()


def replay(ctx, path):
    import shutil
    print(json.load(open(path))["what"][:600]); print("re-running the search with the recorded seed")
    ctx.rng.seed(json.load(open(path)).get("seed", 1))
    run(ctx)
    n = len(ctx.violations)
    shutil.rmtree(ctx.scratch, ignore_errors=True)
    return 1 if n else 0
