"""C17 -- the chunk queue is an exact FIFO byte stream under all operations and I/O faults.
Model: coq/Cq/*.v ; harness: harness/cq_h.c (chunk.c of the working tree, pwrite/pwritev wrapped for fault injection)."""
import os, re
import vlib
from vlib import hx, unhx

LINK = [s for s in vlib.COMMON_SRC if s != "chunk.c"]
FSIZE = [100000, 5000, 10]
FILES = [bytes(((i * 7 + k * 13 + i // 251) & 255) for i in range(sz)) for k, sz in enumerate(FSIZE)]
SMALL = [0, 1, 2, 3, 5, 8, 13, 20]
BIG = [0, 1, 1023, 1024, 1025, 4095, 4096, 8191, 8192, 8193, 16384, 65535, 65536, 65537, 70000]


class Spec:
    """byte-string reference: a queue is the string of bytes appended and not yet consumed"""
    def __init__(self):
        self.c = [b"", b"", b""]
        self.nonmem = [False, False, False]   # conservative: may hold non-memory chunks


def apply_op(sp, op):
    """advance the spec by one op; False when the op's precondition (documented caller obligations) does not hold"""
    a = op.split(","); k = a[0]; q = int(a[1]); L = len(sp.c[q])
    if k in ("am", "an", "ab", "mt"):
        m = unhx(a[2])
        if k == "mt" and not m: return False
        sp.c[q] += m
        if k == "mt": sp.nonmem[q] = True
    elif k == "gm":
        m = unhx(a[2])
        if not m or len(m) > 4096: return False
        sp.c[q] += m
    elif k in ("af", "ao"):
        f, off, ln = int(a[2]), int(a[3]), int(a[4])
        if off < 0 or off + ln > FSIZE[f]: return False
        sp.c[q] += FILES[f][off:off + ln]; sp.nonmem[q] = sp.nonmem[q] or ln > 0
    elif k == "ac":
        r = int(a[2])
        if r == q: return False
        sp.c[q] += sp.c[r]; sp.c[r] = b""; sp.nonmem[q] |= sp.nonmem[r]; sp.nonmem[r] = False
    elif k in ("st", "sw"):
        r = int(a[2]); n = int(a[3])
        if r == q or n < 1 or n > len(sp.c[r]): return False
        sp.c[q] += sp.c[r][:n]; sp.c[r] = sp.c[r][n:]
        sp.nonmem[q] = True if k == "sw" else (sp.nonmem[q] or sp.nonmem[r])
        if not sp.c[r]: sp.nonmem[r] = False
    elif k == "mw":
        n = int(a[2])
        if n > L: return False
        sp.c[q] = sp.c[q][n:]
        if not sp.c[q]: sp.nonmem[q] = False
    elif k == "cm":
        n = int(a[2])
        if sp.nonmem[q] or L == 0 or n < 1 or n > L: return False
    elif k == "sq":
        if L == 0: return False
    elif k == "co":
        if sp.nonmem[q] or L == 0: return False
    elif k in ("rf", "re"):
        pass
    elif k == "pk":
        if int(a[2]) < 1: return False
    elif k == "rd":
        n = int(a[2])
        if n < 1: return False
        if n <= L: sp.c[q] = sp.c[q][n:]
        if not sp.c[q]: sp.nonmem[q] = False
    elif k == "cr":
        r = int(a[2]); off = int(a[3]); ln = int(a[4]); Ls = len(sp.c[r])
        if off + ln > Ls: return False
        sp.c[q] += sp.c[r][off:off + ln]; sp.nonmem[q] |= sp.nonmem[r]
    elif k == "rs":
        sp.c[q] = b""; sp.nonmem[q] = False
    else:
        return False
    return True


def valid(ops):
    sp = Spec()
    return all(apply_op(sp, op) for op in ops)


def gen_line(rng, big):
    sp = Spec()
    unsure = [False, False, False]    # a hard fault (ENOSPC/EIO) may have made an op fail: lengths are not known to the generator
    sizes = BIG if big else SMALL
    T = rng.choice([0, 16, 64, 4096] if not big else [0, 4096, 65536])
    ops = []
    nops = rng.randrange(3, 14 if not big else 9)
    def data(n):
        b0 = rng.randrange(256)
        return bytes((b0 + i * 3) & 255 for i in range(n))
    def script():
        if rng.random() < 0.45: return "-"
        out = []
        for _ in range(rng.randrange(1, 5)):
            r = rng.random()
            out.append("F" if r < 0.2 else "S%d" % rng.choice([0, 1, 2, 3, 7, 1024, 8192, 65536]) if r < 0.6 else "I" if r < 0.75 else "N" if r < 0.9 else "E")
        return ".".join(out)
    for _ in range(nops):
        q = rng.randrange(3); r = (q + rng.randrange(1, 3)) % 3
        kind = rng.choices(["am", "an", "ab", "gm", "af", "ao", "ac", "st", "sw", "mt", "mw", "cm", "co", "pk", "rd", "sq", "cr", "rf", "re", "rs"],
                           [10, 2, 4, 3, 7, 3, 4, 10, 9, 9, 9, 5, 2, 5, 5, 2, 7, 2, 2, 2])[0]
        L = len(sp.c[q]); Lr = len(sp.c[r])
        if kind in ("am", "an", "ab", "gm"):
            op = "%s,%d,%s" % (kind, q, hx(data(rng.choice(sizes))))
        elif kind in ("af", "ao"):
            k = rng.randrange(3); ln = min(rng.choice(sizes), FSIZE[k]); off = rng.choice([0, min(1, FSIZE[k] - ln), FSIZE[k] - ln, (FSIZE[k] - ln) // 2])
            op = "%s,%d,%d,%d,%d" % (kind, q, k, off, ln)
        elif kind == "ac":
            op = "ac,%d,%d" % (q, r)
        elif kind in ("st", "sw"):
            n = rng.choice([Lr, Lr, max(1, Lr - 1), max(1, Lr // 2), 1, max(1, min(Lr, rng.choice(sizes)))])
            op = "sw,%d,%d,%d,%s" % (q, r, n, script()) if kind == "sw" else "st,%d,%d,%d" % (q, r, n)
        elif kind == "mt":
            op = "mt,%d,%s,%s" % (q, hx(data(rng.choice(sizes[1:]))), script())
        elif kind == "mw":
            op = "mw,%d,%d" % (q, rng.choice([L, L // 2, 1 if L else 0, max(0, L - 1)]))
        elif kind == "cm":
            op = "cm,%d,%d" % (q, rng.choice([L, 1, L // 2 + 1, min(L, rng.choice(sizes) + 1)]))
        elif kind in ("co", "sq", "rf", "re", "rs"):
            op = "%s,%d" % (kind, q)
        elif kind == "pk":
            op = "pk,%d,%d" % (q, rng.choice([L, L + 3, L // 2, 1, 0]))
        elif kind == "rd":
            op = "rd,%d,%d" % (q, rng.choice([L, L // 2, 1, L + 1]))
        else:
            src = rng.choice([q, r]); Ls = len(sp.c[src]); off = rng.choice([0, 1, Ls // 2, Ls, max(0, Ls - 1)])
            op = "cr,%d,%d,%d,%d" % (q, src, off, rng.choice([max(0, Ls - off), 1, (Ls - off) // 2, 3, 0]))
        import copy
        a = op.split(",")
        touched = [int(a[1])] + ([int(a[2])] if a[0] in ("ac", "st", "sw", "cr") else [])
        if any(unsure[x] for x in touched) and a[0] not in ("am", "ab", "af", "pk", "rf", "re", "rs", "mt"):
            continue
        sp2 = copy.deepcopy(sp)
        if apply_op(sp2, op):
            sp = sp2; ops.append(op)
            if a[0] == "rs": unsure[int(a[1])] = False
            if a[0] in ("sw", "mt") and re.search(r"[NE]", a[-1]):
                for x in touched: unsure[x] = True
    if not ops:
        ops.append("am,0,%s" % hx(data(3)))
    return "%d %s" % (T, " ".join(ops))


OBS = re.compile(r"^(-?\d+)(?::([0-9a-f~-]*))?@([\d.-]+)=(.*)$")


def monitor(case, impl_line):
    """replay the operation line on the byte-string spec and compare every observation of the implementation"""
    try:
        toks = case.split()
        ops = toks[1:]
        body, _, leak = impl_line.partition(" |leak=")
        obs = body.split(" ")
        if len(obs) != len(ops):
            return "harness produced %d observations for %d operations (crash/abort in the middle?)" % (len(obs), len(ops))
        c = [b"", b"", b""]
        nospc = False
        for i, (op, ob) in enumerate(zip(ops, obs)):
            if op.startswith(("sw", "mt")) and re.search("[NE]", op.split(",")[-1]): nospc = True
            a = op.split(",")
            m = OBS.match(ob)
            if not m: return "unparsable observation %r" % ob[:80]
            rc = int(m.group(1)); data = m.group(2)
            nums = [int(x) for x in m.group(3).split(".")]
            conts = m.group(4).split(".")
            if any("!!" in x for x in conts):
                return "after op %d (%s): a file chunk of the queue can no longer be read (descriptor/file gone)" % (i, op[:40])
            got = [unhx(x) for x in conts]
            k = a[0]; q = int(a[1]) if len(a) > 1 else 0
            exp_data = None; fault_ok = False
            if rc in (-8, -9): pass
            elif k in ("am", "an", "ab", "gm"): c[q] += unhx(a[2])
            elif k in ("af", "ao"): c[q] += FILES[int(a[2])][int(a[3]):int(a[3]) + int(a[4])]
            elif k == "ac": r = int(a[2]); c[q] += c[r]; c[r] = b""
            elif k in ("st", "sw"):
                r = int(a[2]); n = min(int(a[3]), len(c[r]))
                if rc == 0: c[q] += c[r][:n]; c[r] = c[r][n:]
                else: fault_ok = True
            elif k == "mt":
                if rc == 0: c[q] += unhx(a[2])
                else: fault_ok = True
            elif k == "mw": c[q] = c[q][int(a[2]):]
            elif k == "pk": exp_data = c[q][:int(a[2])]
            elif k == "rd":
                n = int(a[2])
                if n <= len(c[q]):
                    exp_data = c[q][:n]; c[q] = c[q][n:]
                    if rc != 0: return "op %d read_data(%d) failed although %d bytes are queued" % (i, n, len(c[q]) + n)
                elif rc == 0: return "op %d read_data(%d) succeeded with only %d bytes queued" % (i, n, len(c[q]))
            elif k == "cr": r = int(a[2]); c[q] += c[r][int(a[3]):int(a[3]) + int(a[4])]
            elif k == "rs": c[q] = b""
            if fault_ok:
                # an error was surfaced: only the accounting must stay consistent; continue from the observed state
                if k in ("sw", "mt") and (len(a) < 4 or a[-1] == "-") and not nospc:
                    return "op %d %s returned %d without any injected fault" % (i, k, rc)
                for j in range(3):
                    if nums[3 * j] != len(got[j]): return "after failed op %d (%s): queue %d reports length %d but holds %d bytes" % (i, op[:30], j, nums[3 * j], len(got[j]))
                c = list(got)
                continue
            if exp_data is not None and rc == 0 and unhx(data or "-") != exp_data:
                return "op %d %s returned %d bytes, expected %d bytes (first difference at %d)" % (
                    i, op[:30], len(unhx(data or "-")), len(exp_data), next((x for x in range(min(len(exp_data), len(unhx(data or '-')))) if exp_data[x] != unhx(data or '-')[x]), -1))
            for j in range(3):
                if nums[3 * j] != nums[3 * j + 1] - nums[3 * j + 2]:
                    return "after op %d: queue %d length %d != bytes_in - bytes_out" % (i, j, nums[3 * j])
                if nums[3 * j] != len(c[j]):
                    return "after op %d (%s): queue %d reports length %d, %d bytes are not yet consumed" % (i, op[:40], j, nums[3 * j], len(c[j]))
                if got[j] != c[j]:
                    d = next((x for x in range(min(len(got[j]), len(c[j]))) if got[j][x] != c[j][x]), min(len(got[j]), len(c[j])))
                    return "after op %d (%s): queue %d content differs from the FIFO byte stream at byte %d (holds %d bytes, expected %d)" % (i, op[:40], j, d, len(got[j]), len(c[j]))
        if leak != "0.0":
            return "after resetting every queue: %s temp files left / descriptor count changed by %s" % tuple(leak.split("."))
    except Exception as e:
        return "monitor could not read harness output (%s: %s): %r" % (type(e).__name__, e, impl_line[:120])
    return None


def describe(case):
    t = case.split()
    out = []
    for op in t[1:]:
        a = op.split(",")
        if a[0] in ("am", "an", "ab", "gm", "mt"):
            a[2] = "<%d bytes>" % len(unhx(a[2]))
        out.append("%s(%s)" % (a[0], ",".join(a[1:])))
    return "upload_temp_file_size=%s; ops: %s" % (t[0], " ".join(out))


def shrink(case, exe, scratch, why_key):
    """drop operations while the monitor keeps failing with the same kind of message"""
    t = case.split(); T, ops = t[0], t[1:]
    def bad(ops_):
        if not valid(ops_): return False
        line = "%s %s" % (T, " ".join(ops_))
        _, o, _ = vlib.run_lines(exe, [line], args=[scratch])
        w = monitor(line, o[0]) if o else "no output"
        return w is not None and re.sub(r"\d+", "#", w)[:40] == why_key
    changed = True
    while changed and len(ops) > 1:
        changed = False
        for i in range(len(ops) - 1, -1, -1):
            cand = ops[:i] + ops[i + 1:]
            if cand and bad(cand):
                ops = cand; changed = True
    return "%s %s" % (T, " ".join(ops))


def run(ctx):
    ok = ctx.prove()
    rng = ctx.rng
    thorough = ctx.tier == "thorough"
    cases = []
    cp = os.path.join(vlib.VERIF, "corpus", "C17.txt")
    if os.path.exists(cp):
        cases += [l.strip() for l in open(cp) if l.strip() and not l.startswith("#")]
    ncorp = len(cases)
    cases += [gen_line(rng, False) for _ in range(60000 if thorough else 12000)]
    cases += [gen_line(rng, True) for _ in range(1500 if thorough else 300)]
    ctx.cov["distribution"]["cq"] = dict(corpus=ncorp, small_sequences=(60000 if thorough else 12000), big_sequences=(1500 if thorough else 300),
                                         ops=sum(len(c.split()) - 1 for c in cases),
                                         with_fault_script=sum(1 for c in cases if re.search(r",(?:[FSINE]\d*\.)*[SINE]\d*(?: |$)", c)))
    exe = vlib.cc_harness(ctx, "cq_h", link_srcs=LINK, ldflags=["-Wl,--wrap=pwrite,--wrap=pwritev"], sanitize=thorough)
    model = vlib.model_driver("C17")
    # each shard gets its own scratch directory (static files + upload dirs)
    shards = vlib.NCPU
    n = (len(cases) + shards - 1) // shards
    parts = [cases[i:i + n] for i in range(0, len(cases), n)]
    import threading, subprocess
    outs = [None] * len(parts)
    def work(i):
        d = os.path.join(ctx.scratch, "s%d" % i); os.makedirs(d, exist_ok=True)
        outs[i] = vlib.run_lines(exe, parts[i], args=[d], timeout=1200)
    ths = [threading.Thread(target=work, args=(i,)) for i in range(len(parts))]
    for t in ths: t.start()
    for t in ths: t.join()
    out_i = []
    for (rc, o, e), part in zip(outs, parts):
        if rc != 0:
            ctx.violate("cq-harness-crash", "cq_h exited with %d after %d of %d lines: %s; first unanswered: %s" % (rc, len(o), len(part), e[-600:], describe(part[min(len(o), len(part) - 1)])),
                        dict(kind="crash", stderr=e[-3000:], case=part[min(len(o), len(part) - 1)], harness="cq_h"))
            o = o + ["<crash>"] * (len(part) - len(o))
        out_i += o
    rc_m, out_m, err_m = vlib.run_lines_sharded(model, cases, timeout=1200)
    ctx.cov["evaluations"] += len(cases)
    nn = min(len(cases), len(out_i), len(out_m))
    oracle = sum(1 for x in out_m if x == "ORACLE")
    dis = [i for i in range(nn) if out_m[i] != "ORACLE" and out_i[i] != out_m[i]]
    ctx.cov["correspondence"]["cq-ops"] = dict(cases=len(cases), disagreements=len(dis), layout_dependent_fault_scripts_judged_by_monitor_only=oracle)
    ctx.cov["distinct_nontrivial"] += len(set(c for c in cases if len(c.split()) > 3))
    ctx.cov["rule"] = ("random operation sequences (3-13 ops over 3 queues; 20 operation kinds; sizes from {0..20} and from chunk-size/64KiB boundaries), "
                       "fault scripts (short/EINTR/ENOSPC/EIO) on every temp-file write of sw/mt ops; every observation (length, bytes_in/out, full content of the 3 queues, "
                       "peeked/read data, leaked temp files and descriptors after reset) compared with the extracted model and with the byte-string spec; non-trivial = >= 3 ops")
    # one replay per failing clause, shrunk
    cats = {}
    for i in range(nn):
        why = monitor(cases[i], out_i[i])
        if why:
            k = re.sub(r"\d+", "#", why)[:40]
            if k not in cats or len(cases[i]) < len(cases[cats[k][0]]):
                cats[k] = (i, why)
    found = bool(cats)
    for k, (i, why) in list(cats.items())[:4]:
        small = shrink(cases[i], exe, os.path.join(ctx.scratch, "s0"), k)
        _, o2, _ = vlib.run_lines(exe, [small], args=[os.path.join(ctx.scratch, "s0")])
        why2 = monitor(small, o2[0]) if o2 else why
        ctx.violate("cq:" + k, "C17 fails on the implementation: %s; %s" % (why2 or why, describe(small)),
                    dict(kind="monitor", case=small, original_case=cases[i], input=describe(small), impl=(o2[0] if o2 else out_i[i])[:2000], why=why2 or why, harness="cq_h"))
    if dis and not found:
        i = min(dis, key=lambda i: len(cases[i]))
        ctx.violate("cq-correspondence", "the code no longer computes the model's function (Cq.CqModel vs chunk.c) on %d sequences, e.g. %s" % (len(dis), describe(cases[i])),
                    dict(kind="correspondence", correspondence="Cq.CqModel operations vs src/chunk.c", case=cases[i], impl=out_i[i][:1500], model=out_m[i][:1500], disagreements=len(dis)),
                    no_input=True)
    ctx.add_samples([dict(case=describe(c)[:400]) for c in cases[ncorp:ncorp + 3] + cases[-2:]])
    if not ok and not found:
        ctx.proof_broken_violation()


def replay(ctx, path):
    import json, shutil
    obj = json.load(open(path))
    case = obj["replay"].get("case")
    exe = vlib.cc_harness(ctx, "cq_h", link_srcs=LINK, ldflags=["-Wl,--wrap=pwrite,--wrap=pwritev"])
    model = vlib.model_driver("C17")
    _, oi, _ = vlib.run_lines(exe, [case], args=[ctx.scratch]); _, om, _ = vlib.run_lines(model, [case])
    why = monitor(case, oi[0]) if oi else "no output"
    print("input:", describe(case)); print("impl :", oi[0][:600] if oi else None); print("model:", om[0][:600] if om else None); print("monitor:", why)
    shutil.rmtree(ctx.scratch, ignore_errors=True)
    return 1 if why or (om and om[0] != "ORACLE" and oi != om) else 0
