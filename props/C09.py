"""C09 -- backends receive exactly the client's request (environment, headers, body).
Model: coq/Fwd/*.v ; implementation: the real lighttpd of the working tree with mod_fastcgi / mod_scgi / mod_proxy in front of
recording backends (lib/backend.py).
Monitor (from RFC 3875, the FastCGI and SCGI specifications and RFC 9110): what the backend received is a well-formed message
of its protocol that carries exactly the request."""
import json, os, re, socket, sys, time, urllib.parse
import vlib, srv, backend, h2c
from vlib import hx
sys.path.insert(0, os.path.join(vlib.VERIF, "props"))
import C04 as H1

CONF = r'''
server.stream-request-body = %d
server.max-request-field-size = 32768
fastcgi.server = ("/fcgi/" => (("host" => "127.0.0.1", "port" => %d, "check-local" => "disable")))
scgi.server = ("/scgi/" => (("host" => "127.0.0.1", "port" => %d, "check-local" => "disable")))
proxy.server = ("/px/" => (("host" => "127.0.0.1", "port" => %d)))
'''
PAT = H1.pattern(5300000)
NAMES = [b"X-Foo", b"X_Foo", b"x-foo", b"X-Bar", b"Accept", b"Cookie", b"Authorization", b"User-Agent", b"Proxy", b"PROXY", b"proxy", b"Proxy-Authorization",
         b"Content_Length", b"X-Content-Length", b"Remote-Addr", b"Server-Name", b"Request-Method", b"Query-String", b"X.Dot", b"X!Bang", b"X-" + b"n" * 121,
         b"X-" + b"n" * 120, b"X-" + b"n" * 122, b"Y" * 250, b"Https", b"Script-Filename", b"Document-Root", b"Gateway-Interface", b"Content-Type"]
HOP = {b"connection", b"proxy-connection", b"keep-alive", b"transfer-encoding", b"te", b"upgrade", b"trailer", b"content-length", b"host", b"expect"}


def gen_request(rng, sid, tier):
    kind = rng.choice(["fcgi", "fcgi", "scgi", "px"])
    method = rng.choice([b"GET", b"POST", b"POST", b"PUT", b"DELETE"])
    path = b"/" + {"fcgi": b"fcgi", "scgi": b"scgi", "px": b"px"}[kind] + rng.choice([b"/app", b"/app/extra/info", b"/a%20b/c", b"/x.php/p", b"/a%2Bc"])
    query = rng.choice([b"", b"x=1&y=%20", b"a=b=c&&", b"q=%C3%A9+z"])
    target = path + b"?" + (query + b"&" if query else b"") + b"id=%d" % sid
    fullq = (query + b"&" if query else b"") + b"id=%d" % sid
    if rng.random() < 0.25:
        # short and empty queries (records are matched to requests by position, the id token is only a convenience)
        fullq = rng.choice([None, b"", b"a", b"=", b"&", b"a=", b"%3F", b"??"])
        target = path + (b"?" + fullq if fullq is not None else b"")
        fullq = fullq or b""
    hdrs = []
    for _ in range(rng.choice([0, 1, 3, 6])):
        k = rng.choice(NAMES)
        v = rng.choice([b"v", b"a b c", b"", b"x" * 127, b"x" * 128, b"y" * 129, b"z" * 5000, b"text/plain; charset=utf-8", b"tab\there", b"\xc3\xa9"])
        if k.lower() == b"content-type" and any(a.lower() == b"content-type" for a, _ in hdrs): continue
        hdrs.append((k, v))
    size_pool = [0, 0, 1, 100, 8192, 65535, 65536, 65537, 70000, 200000] + ([1100000] if rng.random() < 0.08 else []) + ([3000000, 5200000] if tier == "thorough" and rng.random() < 0.1 else [])
    n = 0 if method in (b"GET", b"DELETE") else rng.choice(size_pool)
    off = rng.randrange(4096); body = PAT[off:off + n]
    framing = "none" if method in (b"GET", b"DELETE") else rng.choice(["cl", "cl", "chunked"])
    seg = rng.choice(["whole", "whole", "pieces", "small-chunks-first"])
    rq = dict(kind=kind, sid=sid, method=method, target=target, path=path, query=fullq, hdrs=hdrs, body=body, framing=framing, seg=seg,
              host=rng.choice([b"h.example", b"h.example", b"h.example:8080"]))
    # every sixth CGI-type request or so travels over HTTP/2 instead (bodies that fit the initial flow-control window; HTTP/2 has no chunked coding)
    rq["h2"] = kind in ("fcgi", "scgi") and framing in ("none", "cl") and len(body) <= 60000 and rng.random() < 0.18
    return rq


def wire_request(rq, rng):
    """-> list of byte segments to send one after another"""
    h = rq["method"] + b" " + rq["target"] + b" HTTP/1.1\r\nHost: " + rq.get("host", b"h.example") + b"\r\n"
    for k, v in rq["hdrs"]: h += k + b": " + v + b"\r\n"
    body = rq["body"]
    if rq["framing"] == "cl":
        h += b"Content-Length: %d\r\n\r\n" % len(body)
        if rq["seg"] == "whole" or not body: return [h + body]
        cuts = sorted(rng.sample(range(1, len(body)), min(len(body) - 1, rng.choice([1, 2, 5])))) if len(body) > 1 else []
        segs = [h] + [body[a:b] for a, b in zip([0] + cuts, cuts + [len(body)])]
        return segs
    if rq["framing"] == "chunked":
        h += b"Transfer-Encoding: chunked\r\n\r\n"
        pieces = []; p = 0
        if rq["seg"] == "small-chunks-first":
            for _ in range(rng.choice([16, 17, 20, 40])):
                if p >= len(body): break
                k = min(len(body) - p, rng.choice([1, 7, 100, 1000])); pieces.append(body[p:p + k]); p += k
        while p < len(body):
            k = min(len(body) - p, rng.choice([1, 100, 4096, 65536, 300000])); pieces.append(body[p:p + k]); p += k
        enc = [b"%x\r\n" % len(x) + x + b"\r\n" for x in pieces] + [b"0\r\n\r\n"]
        if rq["seg"] == "whole": return [h + b"".join(enc)]
        if rq["seg"] == "small-chunks-first":
            # each read holds: [CRLF of the previous chunk] + size line + data
            out = [h]; carry = b""
            for x in pieces:
                out.append(carry + b"%x\r\n" % len(x) + x); carry = b"\r\n"
            out.append(carry + b"0\r\n\r\n")
            return out
        return [h] + enc
    return [h + b"\r\n"]


# ------------------------------------------------------------------ reference (RFC 3875 4.1 / FastCGI 6.3 / SCGI)
def expected_http_vars(rq):
    """multiset of (NAME, value) for request header fields"""
    merged = []
    for k, v in [(b"Host", rq.get("host", b"h.example"))] + rq["hdrs"] + ([(b"Content-Length", b"%d" % len(rq["body"]))] if rq["framing"] == "cl" else []):
        for i, (k2, v2) in enumerate(merged):
            if k2.lower() == k.lower():
                if v: merged[i] = (k2, v2 + (b"; " if k.lower() == b"cookie" else b", ") + v if v2 else v)     # RFC 6265 5.4: cookie-pairs are joined with "; "
                break
        else: merged.append((k, v))
    out = []
    for k, v in merged:
        if not v: continue
        if k.lower() == b"proxy": continue
        if k.lower() == b"content-type": out.append((b"CONTENT_TYPE", v)); continue
        name = b"HTTP_" + bytes((c - 32 if 97 <= c <= 122 else c) if (65 <= c <= 90 or 97 <= c <= 122 or 48 <= c <= 57) else 95 for c in k)
        out.append((name, v))
    return out


def judge_cgi(rq, rec):
    """rec: what a FastCGI/SCGI backend recorded"""
    if rec is None: return "the backend never received the request"
    if rec["problems"]: return "the backend received a malformed %s message: %s" % (rq["kind"], "; ".join(rec["problems"])[:200])
    pairs = rec["pairs"]; d = {}
    for k, v in pairs: d.setdefault(k, []).append(v)
    body = rec.get("stdin", rec.get("body"))
    if body != rq["body"]:
        k = next((j for j in range(min(len(body), len(rq["body"]))) if body[j] != rq["body"][j]), min(len(body), len(rq["body"])))
        return "request body differs: client sent %d bytes, backend received %d (first difference at %d)" % (len(rq["body"]), len(body), k)
    want = {b"CONTENT_LENGTH": b"%d" % len(rq["body"]), b"REQUEST_METHOD": rq["method"], b"QUERY_STRING": rq["query"], b"REQUEST_URI": rq["target"],
            b"SERVER_PROTOCOL": b"HTTP/2.0" if rq.get("h2") else b"HTTP/1.1", b"GATEWAY_INTERFACE": b"CGI/1.1"}
    for k, v in want.items():
        if d.get(k) != [v]: return "meta-variable %s is %r, RFC 3875 says %r" % (k.decode(), d.get(k), v)
    # RFC 3875 4.1.5/4.1.13: SCRIPT_NAME + PATH_INFO is the (decoded) path; with check-local disabled lighttpd's documented split is after the first
    # segment below the configured prefix
    full = urllib.parse.unquote_to_bytes(rq["path"])
    sn = d.get(b"SCRIPT_NAME", [None])[0]; pi = d.get(b"PATH_INFO", [b""])[0]
    if sn is None or sn + pi != full: return "SCRIPT_NAME %r + PATH_INFO %r is not the request path %r" % (sn, pi, full)
    k2 = full.find(b"/", len(b"/" + rq["kind"].encode() + b"/"))
    if sn != (full if k2 < 0 else full[:k2]): return "SCRIPT_NAME %r is not the first segment below the configured prefix of %r" % (sn, full)
    exp = sorted(expected_http_vars(rq)); got = sorted((k, v) for k, v in pairs if k.startswith(b"HTTP_") or k == b"CONTENT_TYPE")
    if exp != got:
        miss = [x for x in exp if x not in got][:2]; extra = [x for x in got if x not in exp][:2]
        return "header variables differ from the request's header fields: missing %r, unexpected %r" % ([(k, v[:40]) for k, v in miss], [(k, v[:40]) for k, v in extra])
    if b"HTTP_PROXY" in d: return "HTTP_PROXY present"
    if b"HTTP_TRANSFER_ENCODING" in d: return "HTTP_TRANSFER_ENCODING passed to a CGI-type backend"
    server_defined = [b"SERVER_SOFTWARE", b"SERVER_NAME", b"SERVER_ADDR", b"SERVER_PORT", b"REMOTE_ADDR", b"REMOTE_PORT", b"SCRIPT_FILENAME", b"DOCUMENT_ROOT", b"REQUEST_SCHEME", b"REDIRECT_STATUS"]
    for k in server_defined:
        if len(d.get(k, [])) > 1: return "server-defined variable %s appears %d times" % (k.decode(), len(d[k]))
    if d.get(b"REMOTE_ADDR") != [b"127.0.0.1"]: return "REMOTE_ADDR %r" % d.get(b"REMOTE_ADDR")
    # RFC 3875 4.1.14 / 4.1.15: SERVER_NAME is the host the request was directed to (no port), SERVER_PORT the port it arrived on
    hostname = rq.get("host", b"h.example").split(b":")[0]
    if d.get(b"SERVER_NAME") != [hostname]: return "meta-variable SERVER_NAME is %r, RFC 3875 says %r (Host: %r)" % (d.get(b"SERVER_NAME"), hostname, rq.get("host"))
    if rq.get("server_port") and d.get(b"SERVER_PORT") != [b"%d" % rq["server_port"]]: return "meta-variable SERVER_PORT is %r, the request arrived on port %d" % (d.get(b"SERVER_PORT"), rq["server_port"])
    if rq.get("client_port") and d.get(b"REMOTE_PORT") != [b"%d" % rq["client_port"]]: return "REMOTE_PORT is %r, the client's port is %d" % (d.get(b"REMOTE_PORT"), rq["client_port"])
    return None


def judge_proxy(rq, rec):
    if rec is None: return "the backend never received the request"
    head, body = rec
    lines = head.split(b"\r\n")
    m = re.fullmatch(rb"([A-Z]+) (\S+) HTTP/1\.[01]", lines[0])
    if not m: return "malformed request line %r" % lines[0][:80]
    if m.group(1) != rq["method"] or m.group(2) != rq["target"]: return "request line %r, client sent %r %r" % (lines[0][:80], rq["method"], rq["target"])
    hs = []
    for l in lines[1:]:
        if not l: continue
        hm = re.fullmatch(rb"([!#$%&'*+\-.^_`|~0-9A-Za-z]+):[ \t]*(.*?)[ \t]*", l)
        if not hm: return "malformed header line %r" % l[:80]
        hs.append((hm.group(1), hm.group(2)))
    d = {}
    for k, v in hs: d.setdefault(k.lower(), []).append(v)
    te = d.get(b"transfer-encoding"); cl = d.get(b"content-length")
    if te and cl: return "both Transfer-Encoding and Content-Length sent to the backend"
    if te:
        try: dec = dechunk_py(body)
        except ValueError as e: return "chunked request body to the backend is malformed: %s" % e
        body = dec
    elif cl:
        if cl != [b"%d" % len(body)]: return "Content-Length %r but %d body bytes" % (cl, len(body))
    elif body: return "body without Content-Length or Transfer-Encoding"
    if body != rq["body"]:
        k = next((j for j in range(min(len(body), len(rq["body"]))) if body[j] != rq["body"][j]), min(len(body), len(rq["body"])))
        return "request body differs: client sent %d bytes, backend received %d (first difference at %d)" % (len(rq["body"]), len(body), k)
    # end-to-end header fields arrive with their values; connection-management fields are not passed verbatim
    merged = {}
    for k, v in rq["hdrs"]:
        if v: merged.setdefault(k.lower(), []).append(v)
    for k, vs in merged.items():
        if k in HOP or k == b"proxy": continue
        sep = b"; " if k == b"cookie" else b", "
        got = sep.join(d.get(k, []))
        if got != sep.join(vs): return "end-to-end header field %r: client sent %r, backend received %r" % (k, b", ".join(vs)[:60], got[:60])
    if b"proxy-connection" in d or b"keep-alive" in d: return "Proxy-Connection / Keep-Alive passed to the backend"
    return None


def dechunk_py(b):
    out = b""; p = 0
    while True:
        m = re.compile(rb"([0-9A-Fa-f]+)\r\n").match(b, p)
        if not m: raise ValueError("bad chunk size at %d" % p)
        n = int(m.group(1), 16); p = m.end()
        if n == 0:
            if b[p:p + 2] != b"\r\n": raise ValueError("no final CRLF")
            return out
        out += b[p:p + n]
        if b[p + n:p + n + 2] != b"\r\n": raise ValueError("chunk not followed by CRLF")
        p += n + 2


def model_check(rq, rec, model):
    """the modelled variables and the PARAMS encoding, through the extracted model"""
    if rq["kind"] != "fcgi" or rec is None or rec["pairs"] is None: return None
    merged = []
    for k, v in [(b"Host", rq.get("host", b"h.example"))] + rq["hdrs"] + ([(b"Content-Length", b"%d" % len(rq["body"]))] if rq["framing"] == "cl" else []):
        for i, (k2, v2) in enumerate(merged):
            if k2.lower() == k.lower():
                if v: merged[i] = (k2, v2 + (b"; " if k.lower() == b"cookie" else b", ") + v if v2 else v)      # request.c joins repeated Cookie fields with "; " (RFC 6265 5.4)
                break
        else: merged.append((k, v))
    full = urllib.parse.unquote_to_bytes(rq["path"]); k2 = full.find(b"/", len(b"/" + rq["kind"].encode() + b"/"))
    l1 = "V %s %s %s %s %s %s %d %s" % (hx(rq["method"]), hx(b"HTTP/2.0" if rq.get("h2") else b"HTTP/1.1"), hx(rq["target"]), hx(full if k2 < 0 else full[:k2]), hx(b"" if k2 < 0 else full[k2:]), hx(rq["query"]), len(rq["body"]),
                                      " ".join(hx(k) + " " + hx(v) for k, v in merged))
    l2 = "E " + " ".join(hx(k) + " " + hx(v) for k, v in rec["pairs"])
    _, out, _ = vlib.run_lines(model, [l1, l2])
    if len(out) < 2: return "model run failed"
    mv = sorted(tuple(x.split("=")) for x in out[0].split())
    got = {}
    for k, v in rec["pairs"]: got.setdefault(hx(k), []).append(hx(v))
    for k, v in mv:
        if v not in got.get(k, []): return "Fwd.FwdModel.request_vars gives %s=%r, the backend received %r" % (bytes.fromhex(k).decode(), bytes.fromhex(v)[:60] if v != "-" else b"", [bytes.fromhex(x)[:60] if x != "-" else b"" for x in got.get(k, [])])
    if out[1] != hx(rec["params_raw"]): return "PARAMS bytes differ from Fwd.FwdModel.enc_params of the decoded pairs (length encoding)"
    return None


def run_mode(ctx, stream, reqs, sanitize=False):
    fb = backend.FcgiBackend(); hb = backend.HttpBackend(); sb = backend.ScgiBackend()
    s = srv.Server(ctx, "rq%d" % stream, CONF % (stream, fb.port, sb.port, hb.port), files={}, modules=["mod_fastcgi", "mod_scgi", "mod_proxy"], sanitize=sanitize).start()
    out = []; alive = False
    try:
        for rq in reqs:
            be = {"fcgi": fb, "scgi": sb, "px": hb}[rq["kind"]]
            with be.lock: n0 = len(be.requests)
            if rq.get("h2"):
                rq["client_port"] = None; rq["server_port"] = s.port
                try:
                    c = h2c.Conn(s.port, timeout=15.0)
                    try:
                        hd = [(k, v) for k, v in rq["hdrs"]] + ([(b"content-length", b"%d" % len(rq["body"]))] if rq["framing"] == "cl" else [])
                        st = c.wait([c.send_request(rq["method"], rq["target"], headers=hd, body=rq["body"] if rq["framing"] == "cl" else None, authority=rq.get("host", b"h.example"))])[0]
                    finally: c.close()
                    data = b"HTTP/2 " + (dict(st["headers"]).get(b":status", b"?") if st and st.get("headers") else b"no-response") + b"\r\n\r\n"
                except Exception as e: data = b"<<error %s>>" % str(e).encode()
                rec = None
                t0 = time.time()
                while time.time() - t0 < 2.0:
                    with be.lock:
                        if len(be.requests) > n0: rec = be.requests[n0]; break
                    time.sleep(0.005)
                out.append((rec, data[:200]))
                if not s.alive(): break
                continue
            so = s.connect(timeout=15.0)
            rq["client_port"] = so.getsockname()[1]; rq["server_port"] = s.port
            try:
                for i, sg in enumerate(rq["wire"]):
                    so.sendall(sg)
                    if len(rq["wire"]) > 1 and i < 60: time.sleep(0.002)
                data = b""
                while b"\r\n\r\n" not in data:
                    c = so.recv(65536)
                    if not c: break
                    data += c
            except OSError as e: data = b"<<error %s>>" % str(e).encode()
            finally: so.close()
            rec = None
            t0 = time.time()
            while time.time() - t0 < 2.0:
                with be.lock:
                    if len(be.requests) > n0: rec = be.requests[n0]; break
                time.sleep(0.005)
            out.append((rec, data[:200]))
            if not s.alive(): break
        alive = s.alive()
    finally:
        rc = s.stop(); fb.stop(); hb.stop(); sb.stop()
    crashed = (not alive) or rc in (98, 99) or (rc is not None and rc < 0 and rc != -15)
    return out, crashed, s.log()[-2000:] + getattr(s, "out", "")[-1500:]


def enc_rq(rq):
    return dict(kind=rq["kind"], sid=rq["sid"], method=rq["method"].decode(), target=rq["target"].hex(), path=rq["path"].hex(), query=rq["query"].hex(),
                hdrs=[[k.hex(), v.hex()] for k, v in rq["hdrs"]], bodylen=len(rq["body"]), bodyoff=PAT.find(rq["body"][:64]) if rq["body"] else 0, framing=rq["framing"], seg=rq["seg"],
                wire_lens=[len(x) for x in rq["wire"]][:80], http2=bool(rq.get("h2")))


def run(ctx):
    ok = ctx.prove()
    model = vlib.model_driver("C09")
    n = 90 if ctx.tier == "quick" else 700
    srv.build_server(False)
    if ctx.tier == "thorough": srv.build_server(True)
    jobs = []; sid = 0
    for stream in (0, 1, 2):
        reqs = []
        for _ in range(n):
            sid += 1; rq = gen_request(ctx.rng, sid, ctx.tier); rq["wire"] = wire_request(rq, ctx.rng); reqs.append(rq)
        # the boundary of the FastCGI length encoding and the tempfile threshold, always
        for nm in (b"X-" + b"n" * 120, b"X-" + b"n" * 121, b"X-" + b"n" * 122):
            sid += 1; rq = dict(kind="fcgi", sid=sid, method=b"GET", target=b"/fcgi/app?id=%d" % sid, path=b"/fcgi/app", query=b"id=%d" % sid, hdrs=[(nm, b"v" * 128)], body=b"", framing="none", seg="whole")
            rq["wire"] = wire_request(rq, ctx.rng); reqs.append(rq)
        sid += 1; rq = dict(kind="fcgi", sid=sid, method=b"POST", target=b"/fcgi/app?id=%d" % sid, path=b"/fcgi/app", query=b"id=%d" % sid, hdrs=[], body=PAT[7:7 + 150000], framing="chunked", seg="small-chunks-first")
        rq["wire"] = wire_request(rq, ctx.rng); reqs.append(rq)
        jobs.append((stream, reqs))
    from concurrent.futures import ThreadPoolExecutor
    with ThreadPoolExecutor(max_workers=3) as ex:
        futs = [ex.submit(run_mode, ctx, st, reqs, ctx.tier == "thorough") for st, reqs in jobs]
        outs = [f.result() for f in futs]
    found = False; dist = {}; total = 0; bodies = 0
    for (stream, reqs), (res, crashed, log) in zip(jobs, outs):
        if crashed:
            k = min(len(res), len(reqs) - 1)
            ctx.violate("c09-server-crash", "lighttpd (stream-request-body=%d) died: %s" % (stream, log[-600:]), dict(kind="crash", stream=stream, request=enc_rq(reqs[k]), log=log))
            found = True
        dis = 0
        for rq, (rec, chead) in zip(reqs, res):
            total += 1; bodies += len(rq["body"]) > 0
            key = "%s/%s/%s" % (rq["kind"], rq["framing"], "tempfile" if len(rq["body"]) > 65536 else "mem"); dist[key] = dist.get(key, 0) + 1
            if rq.get("h2"): dist["over-http2"] = dist.get("over-http2", 0) + 1
            why = judge_proxy(rq, rec) if rq["kind"] == "px" else judge_cgi(rq, rec)
            if why and rec is None and chead.startswith(b"HTTP/1.1 411") and rq["framing"] == "chunked":
                why = None       # lighttpd refuses (411) a chunked body it would have to stream to a backend that needs the length first: nothing was forwarded
                dist["refused-411"] = dist.get("refused-411", 0) + 1; continue
            if why and rec is None and not chead.startswith(b"HTTP/1.1 200"):
                why += " (client got %r)" % chead[:60]
            if why:
                ctx.violate("c09:" + re.sub(r"b'[^']*'|b\"[^\"]*\"|\d+", "#", why)[:70], "C09 fails on the implementation (stream-request-body=%d, %s backend, %s body of %d bytes, %s): %s"
                            % (stream, rq["kind"], rq["framing"], len(rq["body"]), rq["seg"], why), dict(kind="monitor", stream=stream, request=enc_rq(rq), why=why))
                found = True; continue
            mw = model_check(rq, rec, model)
            if mw:
                dis += 1
                if not found:
                    ctx.violate("c09-correspondence", "the FastCGI request differs from the model although the monitor found nothing wrong: %s" % mw,
                                dict(kind="correspondence", correspondence="Fwd.FwdModel.request_vars/enc_params vs http_cgi_headers/fcgi_env_add", stream=stream, request=enc_rq(rq), why=mw), no_input=True)
                    found = True
        ctx.cov["correspondence"]["forward-stream%d" % stream] = dict(requests=len(res), disagreements=dis)
    ctx.cov["evaluations"] += total; ctx.cov["distinct_nontrivial"] += bodies
    ctx.cov["distribution"] = dict(requests_by_backend_framing_storage=dist)
    ctx.cov["rule"] = ("server.stream-request-body 0/1/2 x backends FastCGI/SCGI/HTTP proxy (recording) x methods x targets with encoded path bytes and queries x 0-6 header fields from a "
                       "pool of names that collide after mapping (X-Foo/X_Foo/x-foo), look like meta-variables (Remote-Addr, Script-Filename, Content_Length...), spell Proxy in any "
                       "case, are 122-125 bytes long (HTTP_ + name = 127..130: the FastCGI 1-/4-byte length boundary) x values of 0,1,127,128,129,5000 bytes x bodies of 0 B..1.1 MiB "
                       "(5 MiB thorough) as Content-Length or chunked, sent whole, in pieces, or as 16-40 small chunks each in its own read before crossing the 64 KiB tempfile "
                       "threshold; non-trivial = request with a body")
    if not ok and not found:
        ctx.proof_broken_violation()


def replay(ctx, path):
    import shutil, random
    obj = json.load(open(path)); rp = obj["replay"]; j = rp.get("request")
    if not j:
        print(rp); shutil.rmtree(ctx.scratch, ignore_errors=True); return 1
    rq = dict(kind=j["kind"], sid=j["sid"], method=j["method"].encode(), target=bytes.fromhex(j["target"]), path=bytes.fromhex(j["path"]), query=bytes.fromhex(j["query"]),
              hdrs=[(bytes.fromhex(k), bytes.fromhex(v)) for k, v in j["hdrs"]], body=PAT[j["bodyoff"]:j["bodyoff"] + j["bodylen"]], framing=j["framing"], seg=j["seg"])
    bad = False
    for attempt in range(3):
        rq["wire"] = wire_request(rq, random.Random(attempt))
        res, crashed, log = run_mode(ctx, rp.get("stream", 0), [rq])
        rec = res[0][0] if res else None
        why = judge_proxy(rq, rec) if rq["kind"] == "px" else judge_cgi(rq, rec)
        print("attempt", attempt, "monitor:", why, "crashed:", crashed)
        bad = bad or bool(why) or crashed
    shutil.rmtree(ctx.scratch, ignore_errors=True)
    return 1 if bad else 0
