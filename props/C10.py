"""C10 -- backend responses are relayed faithfully; broken ones never look complete.
Model: coq/Gw/*.v (+ coq/Resp for the client side); implementation: the real lighttpd of the working tree with mod_fastcgi,
mod_scgi and mod_proxy in front of scripted backends (lib/backend.py).
Monitor (from the property text): what the strict client-side parser reads is the status, end-to-end header fields and body the
backend produced; a backend stream that is truncated, malformed or cut off never arrives as a complete 2xx/3xx response."""
import json, os, re, struct, sys
import vlib, srv, backend, h2c
sys.path.insert(0, os.path.join(vlib.VERIF, "props"))
import C04 as H1
from vlib import hx

CONF = r'''
server.stream-response-body = %d
server.max-keep-alive-requests = 100
fastcgi.server = ("/fcgi/" => (("host" => "127.0.0.1", "port" => %d, "check-local" => "disable", "disable-time" => 0)))
scgi.server = ("/scgi/" => (("host" => "127.0.0.1", "port" => %d, "check-local" => "disable", "disable-time" => 0)))
proxy.server = ("/px/" => (("host" => "127.0.0.1", "port" => %d, "disable-time" => 0)))
'''
HOP = {b"connection", b"transfer-encoding", b"keep-alive", b"proxy-connection", b"upgrade", b"te", b"trailer", b"status", b"content-length"}
PAT = H1.pattern(400000)


# ------------------------------------------------------------------ scenarios
def gen_scenario(rng, sid):
    kind = rng.choice(["fcgi", "fcgi", "fcgi", "px", "px", "scgi"])
    status = rng.choice([200, 200, 200, 201, 404, 302, 500, 204, 304, 206])
    hdrs = [(b"Content-Type", rng.choice([b"text/plain", b"application/x-custom; q=1"]))]
    if rng.random() < 0.5: hdrs.append((b"X-Custom", rng.choice([b"a b c", b"v", b"x" * 300])))
    if rng.random() < 0.3: hdrs += [(b"Set-Cookie", b"a=1"), (b"Set-Cookie", b"b=2; Path=/")]
    if rng.random() < 0.3: hdrs.append((b"Cache-Control", b"no-store"))
    if status == 302: hdrs.append((b"Location", b"/elsewhere?x=1"))
    n = rng.choice([0, 1, 2, 10, 100, 1000, 8000, 40000, 70000, 200000])
    if status in (204, 304): n = 0
    loc_only = status == 302 and kind != "px" and rng.random() < 0.5          # RFC 3875 6.2.3: a Location field alone is a client redirect (302)
    if loc_only: n = 0
    off = rng.randrange(1000)
    blocks = []
    left = n
    while left > 0:
        k = min(left, rng.choice([1, 2, 7, 100, 1000, 8184, 8192, 30000, 65535]))
        blocks.append(PAT[off:off + k]); off += k; left -= k
    body = b"".join(blocks)
    frame = rng.choice(["cl", "eof", "eof"]) if kind != "px" else rng.choice(["cl", "chunked", "chunked", "eof"])
    if status in (204, 304): frame = "eof" if kind != "px" else "cl"
    brk = rng.choice([None] * 5 + ["truncate", "truncate", "truncate-rst", "bad-header", "cl-long", "bad-chunk", "no-end", "garbage", "early-close"])
    if brk == "bad-chunk" and frame != "chunked": brk = "truncate"
    if brk == "cl-long" and frame != "cl": brk = "truncate"
    if brk == "no-end" and kind != "fcgi": brk = "truncate"
    if brk == "garbage" and kind != "fcgi": brk = "bad-header"
    # ---- the response message the backend means to send
    if kind == "px":
        head = b"HTTP/1.1 %d X\r\n" % status
    else:
        head = (b"Status: %d\r\n" % status) if (status != 200 or rng.random() < 0.3) else b""
        if loc_only: head = b""
    for k, v in hdrs: head += k + b": " + v + b"\r\n"
    if brk == "bad-header": head += rng.choice([b"Broken Header Line Without Colon\r\n", b": empty-name\r\n", b"X\x01Y: ctl\r\n"])
    decl = len(body) + (rng.choice([1, 100, 70000]) if brk == "cl-long" else 0)
    if frame == "cl": head += b"Content-Length: %d\r\n" % decl
    if frame == "chunked": head += b"Transfer-Encoding: chunked\r\n"
    if kind == "px" and rng.random() < 0.3: head += b"Connection: close\r\n"
    head += b"\r\n"
    if frame == "chunked":
        wire = backend.chunk_encode(blocks, upper=rng.random() < 0.3)
        if brk == "bad-chunk":
            wire = rng.choice([wire.replace(b"\r\n", b"\n", 1), b"zz\r\n" + wire, wire[:-5] + b"0\r\n", wire.replace(b"\r\n", b"\r\nX", 2) if len(blocks) else b"-1\r\n\r\n"])
    else:
        wire = body
    content = head + wire
    cand = [len(head), len(head) - 1, len(head) - 2, 1]
    chunk_cand = []
    if frame == "chunked" and brk != "bad-chunk":
        # cuts aimed at chunk framing: after a size line, after chunk data (before its CRLF), inside that CRLF
        pos = len(head)
        for b in blocks:
            if not b: continue
            szl = len(b"%x" % len(b)) + 2
            chunk_cand += [pos + szl - 2, pos + szl, pos + szl + len(b), pos + szl + len(b), pos + szl + len(b) + 1, pos + szl + len(b) + 2]
            pos += szl + len(b) + 2
        cand += chunk_cand
    # ---- transport
    sc = dict(kind=kind, sid=sid, status=status, hdrs=hdrs, body=body, frame=frame, brk=brk, content=content, declared=decl)
    if kind == "fcgi":
        recs = []; p = 0; positions = []
        pieces = []
        while p < len(content):
            k = min(len(content) - p, rng.choice([1, 5, 8, 100, 1000, 8184, 8192, 65535]))
            pieces.append(content[p:p + k]); p += k
        stream = b""
        for i, pc in enumerate(pieces):
            pad = rng.choice([0, 0, 0, 1, 7, 8, 255])
            padbytes = None
            if pad >= 12 and rng.random() < 0.4: padbytes = (struct.pack(">BBHHBB", 1, 6, 1, 4, 0, 0) + b"EVIL" + b"\0" * (pad - 12))[:pad]
            stream += backend.fcgi_record(6, 1, pc, pad, padbytes)
            positions += [len(stream) - pad, len(stream), len(stream) - pad - len(pc), len(stream) - pad - len(pc) - 4]
            fake = lambda n: (struct.pack(">BBHHBB", 1, 6, 1, 4, 0, 0) + b"EVIL" + b"\0" * n)[:n]      # padding that reads as a STDOUT record
            if rng.random() < 0.15:
                pad2 = rng.choice([0, 3, 16, 255])
                stream += backend.fcgi_record(7, 1, b"some stderr text\n", pad2, fake(pad2) if pad2 >= 12 else None); positions.append(len(stream))
            if rng.random() < 0.08:
                pad2 = rng.choice([0, 5, 16, 255])
                stream += backend.fcgi_record(rng.choice([9, 11]), 1, b"x" * 8, pad2, fake(pad2) if pad2 >= 12 else None); positions.append(len(stream))
        if brk == "garbage": stream = rng.choice([b"\x01\x06\x00\x01\xff\xff\x00\x00short", b"HTTP/1.1 200 OK\r\n\r\nnot fastcgi at all"])
        if brk != "no-end":
            stream += backend.fcgi_record(6, 1, b"") + backend.fcgi_record(3, 1, struct.pack(">IB3x", 0, 0), rng.choice([0, 8]))
        positions += [len(stream) - 1, len(stream) - 8, len(stream) - 16]
        cand = [x for x in positions if 0 < x < len(stream)]
    else:
        stream = content
    end = "close"
    if brk in ("truncate", "truncate-rst", "early-close"):
        lim = len(stream) - 1 if brk != "early-close" else min(len(stream) - 1, rng.choice([0, 1, 5, 20]))
        k = rng.choice([rng.choice(cand) if cand else 1, rng.randrange(0, max(1, lim + 1)), max(0, lim)]) if lim > 0 else 0
        k = max(0, min(k, len(stream) - 1))
        stream = stream[:k]
        end = "rst" if brk == "truncate-rst" else "close"
        cand = [x for x in cand if 0 < x < len(stream)]
    ncut = rng.choice([0, 0, 1, 1, 2, 3])
    pts = [rng.choice(cand) if cand and rng.random() < 0.6 else rng.randrange(1, max(2, len(stream))) for _ in range(ncut)]
    if chunk_cand and kind == "px" and rng.random() < 0.7:
        pts = [x for x in [rng.choice(chunk_cand[:6]) for _ in range(rng.choice([1, 1, 2]))] if 0 < x < len(stream)]
    segs = backend.cut(stream, pts) if stream else [b""]
    sc["segments"] = [(segs[0], 0)] + [(x, 0.015) for x in segs[1:]]
    sc["stream"] = stream; sc["end"] = end
    return sc


# ------------------------------------------------------------------ reference: what the backend said
def backend_meaning(sc, model_line_out):
    """-> ('complete', status, hdrs, body) or ('broken',) using the model for transport/delimiting"""
    kind = sc["kind"]
    if kind == "fcgi":
        st, _, hexout = model_line_out[0].partition(" ")
        content = bytes.fromhex(hexout) if hexout not in ("-", "") else b""
        if st != "DONE":
            i = content.find(b"\r\n\r\n")
            m = re.search(rb"(?im)^status:[ \t]*(\d{3})", content[:i]) if i >= 0 else None
            if m and int(m.group(1)) in (204, 304) and sc["brk"] != "bad-header":
                return ("complete", int(m.group(1)), [tuple(x.split(b": ", 1)) for x in content[:i].split(b"\r\n") if b": " in x], b"")
            cm = re.search(rb"(?im)^content-length:[ \t]*(\d+)", content[:i]) if i >= 0 else None
            if cm and len(content) - (i + 4) >= int(cm.group(1)) and sc["brk"] != "bad-header":
                # the HTTP-level message is complete (declared length satisfied); only FastCGI's END_REQUEST is missing
                sm = re.search(rb"(?im)^status:[ \t]*(\d{3})", content[:i])
                return ("complete", int(sm.group(1)) if sm else (302 if re.search(rb"(?im)^location:", content[:i]) else 200), [tuple(x.split(b": ", 1)) for x in content[:i].split(b"\r\n") if b": " in x], content[i + 4:i + 4 + int(cm.group(1))])
            return ("broken",)
    else:
        content = sc["stream"]
    i = content.find(b"\r\n\r\n")
    if i < 0: return ("broken",)
    head = content[:i].split(b"\r\n"); rest = content[i + 4:]
    status = 200; hs = []
    if kind == "px":
        m = re.match(rb"HTTP/1\.[01] (\d{3})", head[0])
        if not m: return ("broken",)
        status = int(m.group(1)); head = head[1:]
    for l in head:
        m = re.match(rb"([!#$%&'*+\-.^_`|~0-9A-Za-z]+):[ \t]*(.*?)[ \t]*$", l)
        if not m: return ("broken",)
        hs.append((m.group(1), m.group(2)))
    d = {}
    for k, v in hs: d.setdefault(k.lower(), []).append(v)
    if b"status" in d and kind != "px": status = int(d[b"status"][0][:3])
    elif kind != "px" and b"location" in d: status = 302          # RFC 3875 6.2.3 / 6.3.2: Location without Status is a client redirect
    if status in (204, 304): return ("complete", status, hs, b"")
    if b"transfer-encoding" in d and kind == "px":
        v = model_line_out[-1]
        return ("complete", status, hs, bytes.fromhex(v.split()[1]) if v.split()[1] != "-" else b"") if v.startswith("COMPLETE") else ("broken",)
    if b"content-length" in d:
        n = int(d[b"content-length"][0])
        if len(rest) < n: return ("broken",)
        return ("complete", status, hs, rest[:n])
    if sc["end"] == "rst": return ("broken",)
    return ("complete", status, hs, rest)


def model_lines(sc):
    l = []
    if sc["kind"] == "fcgi": l.append("F " + hx(sc["stream"]))
    if sc["kind"] == "px" and sc["frame"] == "chunked":
        i = sc["stream"].find(b"\r\n\r\n")
        l.append("B C " + hx(sc["stream"][i + 4:] if i >= 0 else b""))
    return l


# ------------------------------------------------------------------ judgement
def judge(sc, meaning, data, closed, methods):
    """None or why"""
    try: rs = H1.parse_stream(data, methods, closed)
    except H1.Bad as e:
        rs = None; err = str(e)
    path = {"fcgi": "/fcgi/", "px": "/px/", "scgi": "/scgi/"}[sc["kind"]]
    if meaning[0] == "complete":
        _, status, hs, body = meaning
        if rs is None: return "the backend's response was complete and well-formed but the client side is not: %s" % err
        if not rs: return "no response at all to a request whose backend answered completely"
        st, h, b, frame, keep = rs[0]
        if st != status: return "backend said status %d, client got %d" % (status, st)
        if sc.get("brk") and st >= 400 and b.startswith(b"<!DOCTYPE html>") and (b"<title>%d " % st) in b and body != b:
            # the stream broke (no END_REQUEST / EOF) after an error status had been announced: lighttpd reports that status with its own
            # error page instead of relaying a body it cannot vouch for - an error report, not a relayed response
            pass
        elif methods[0] != b"HEAD" and b != body:
            k = next((j for j in range(min(len(b), len(body))) if b[j] != body[j]), min(len(b), len(body)))
            return "body differs: backend produced %d bytes, client got %d (first difference at %d)" % (len(body), len(b), k)
        own_page = bool(sc.get("brk")) and st >= 400 and ((b.startswith(b"<!DOCTYPE html>") and (b"<title>%d " % st) in b and body != b) or
                                                           (methods[0] == b"HEAD" and h.get(b"content-type") == [b"text/html"] and (b"Content-Type", b"text/html") not in hs))
        for k, v in hs:
            if k.lower() in HOP or own_page: continue
            if v not in h.get(k.lower(), []): return "end-to-end header %r: %r sent by the backend is missing or altered (client has %r)" % (k, v, h.get(k.lower()))
        for k in h:
            if k.startswith(b"x-") and k not in [a.lower() for a, _ in hs]: return "client received header %r the backend never sent" % k
        if sc["kind"] != "px" and b"status" in h:
            return "the CGI Status line of the backend was relayed to the client as a header field (Status: %r)" % h[b"status"]
    elif methods[0] != b"HEAD" and sc["brk"] != "bad-header":
        # (a HEAD response carries no body whose truncation could show; a header line lighttpd skips as invalid is tolerated: DESIGN.md, C10 observations)
        if rs is not None and rs and 200 <= rs[0][0] < 400 and rs[0][0] != 304:
            st, h, b, frame, keep = rs[0]
            why = ("backend stream was broken (%s, %d bytes sent, end=%s) but the client received a complete %d response of %d bytes (%s-delimited)"
                   % (sc["brk"], len(sc["stream"]), sc["end"], st, len(b), frame))
            if frame == "len" and not (sc["frame"] == "cl" and sc["declared"] == len(b)) and (sc["body"].startswith(b) or b[:48] in sc["stream"]):
                return (why + ": the part of the body that had arrived, under a Content-Length computed by lighttpd", "partial-content-with-computed-length")
            return why
    # the request after it on the same connection
    if rs is not None and len(rs) >= 2:
        st2, h2, b2, _, _ = rs[1]
        if st2 != 200 or b2 != b"ok-static\n": return "the next request on the connection got %d / %r instead of the static file" % (st2, b2[:40])
    if rs is not None and len(rs) == 1 and rs[0][4] and len(methods) > 1 and not closed:
        # (a server may close a connection at any time -- after a backend failure lighttpd does --; what it may not do is leave the next request hanging)
        return "first response kept the connection alive, the connection stayed open, but the pipelined second request was never answered"
    return None


def run_stream_mode(ctx, stream, scenarios, model, sanitize=False):
    fb = backend.FcgiBackend(); hb = backend.HttpBackend(); sb = backend.ScgiBackend()
    for sc in scenarios:
        if sc["kind"] == "fcgi": fb.script(sc["sid"], (lambda segs: (lambda rid: segs))(sc["segments"]), sc["end"])
        elif sc["kind"] == "px": hb.script(sc["sid"], sc["segments"], sc["end"])
        else: sb.script(sc["sid"], sc["segments"], sc["end"])
    s = srv.Server(ctx, "s%d" % stream, CONF % (stream, fb.port, sb.port, hb.port), files={"/ok.txt": b"ok-static\n"},
                   modules=["mod_fastcgi", "mod_scgi", "mod_proxy"], sanitize=sanitize).start()
    out = []; alive = False
    try:
        for sc in scenarios:
            path = {"fcgi": b"/fcgi/r", "px": b"/px/r", "scgi": b"/scgi/r"}[sc["kind"]]
            reqs = [dict(method=sc["method"], target=path + b"?id=%d" % sc["sid"], ver=b"1.1", conn=None), dict(method=b"GET", target=b"/ok.txt", ver=b"1.1", conn=b"close")]
            try: data, closed = H1.talk(s, dict(reqs=reqs, mode="all"), timeout=6.0)
            except OSError as e: data, closed = b"<<error %s>>" % str(e).encode(), True
            out.append((data, closed))
            if not s.alive(): break
            if sc["sid"] % 4 == 0 and sc["method"] == b"GET":
                # the same backend behaviour seen by an HTTP/2 client
                try:
                    c = h2c.Conn(s.port, timeout=6.0)
                    try: sc["h2"] = c.wait([c.send_request(b"GET", path + b"?id=%d" % sc["sid"], authority=b"h")])[0]
                    finally: c.close()
                except Exception: sc["h2"] = None
                if not s.alive(): break
        alive = s.alive()
    finally:
        rc = s.stop(); fb.stop(); hb.stop(); sb.stop()
    crashed = (not alive) or rc in (98, 99) or (rc is not None and rc < 0 and rc != -15)
    return out, crashed, s.log()[-2000:] + getattr(s, "out", "")[-1500:]


def judge_h2(sc, meaning, st):
    """the same clauses for an HTTP/2 client: a stream that ends with END_STREAM and no RST_STREAM is what 'complete' looks like there"""
    hd = dict(st["headers"]) if st and st.get("headers") else None
    ended = bool(st) and st.get("done") and st.get("rst") is None and hd is not None
    try: status = int(hd[b":status"]) if hd else None
    except (KeyError, ValueError): status = None
    if meaning[0] == "complete":
        _, bstatus, hs, body = meaning
        if hd is None: return "over HTTP/2: no response to a request whose backend answered completely"
        if status != bstatus: return "over HTTP/2: backend said status %d, client got %s" % (bstatus, status)
        own_page = bool(sc.get("brk")) and status >= 400 and st["body"].startswith(b"<!DOCTYPE html>")
        if not ended and not own_page: return "over HTTP/2: the backend's complete response was not delivered completely (rst=%s)" % st.get("rst")
        if st["body"] != body and not own_page: return "over HTTP/2: body differs: backend produced %d bytes, client got %d" % (len(body), len(st["body"]))
    elif sc["brk"] != "bad-header":
        if ended and status is not None and 200 <= status < 400 and status != 304:
            why = ("over HTTP/2: backend stream was broken (%s, end=%s) but the client's stream ended normally (END_STREAM, no RST_STREAM) with a %d response of %d bytes"
                   % (sc["brk"], sc["end"], status, len(st["body"])))
            if sc["body"].startswith(st["body"]) or st["body"][:48] in sc["stream"]:
                return (why + ": the part of the body that had arrived", "partial-content-with-computed-length")
            return why
    return None


def enc_sc(sc):
    return dict(kind=sc["kind"], sid=sc["sid"], brk=sc["brk"], end=sc["end"], frame=sc["frame"], status=sc["status"], method=sc["method"].decode(),
                segments=[[d.hex(), dl] for d, dl in sc["segments"]] if len(sc["stream"]) < 60000 else None, stream_len=len(sc["stream"]))


def run(ctx):
    ok = ctx.prove()
    model = vlib.model_driver("C10")
    n = 130 if ctx.tier == "quick" else 1200
    srv.build_server(False)
    if ctx.tier == "thorough": srv.build_server(True)
    jobs = []
    sid = 0
    for stream in (0, 1, 2):
        scs = []
        cp = os.path.join(vlib.VERIF, "corpus", "C10.jsonl")
        for _ in range(n):
            sid += 1
            sc = gen_scenario(ctx.rng, sid); sc["method"] = ctx.rng.choice([b"GET", b"GET", b"GET", b"HEAD"])
            scs.append(sc)
        jobs.append((stream, scs))
    from concurrent.futures import ThreadPoolExecutor
    with ThreadPoolExecutor(max_workers=3) as ex:
        futs = [ex.submit(run_stream_mode, ctx, st, scs, model, ctx.tier == "thorough") for st, scs in jobs]
        outs = [f.result() for f in futs]
    found = False; dist = {}; total = 0; complete = 0
    for (stream, scs), (res, crashed, log) in zip(jobs, outs):
        if crashed:
            k = min(len(res), len(scs) - 1)
            ctx.violate("c10-server-crash", "lighttpd (stream-response-body=%d) died around scenario %s: %s" % (stream, enc_sc(scs[k])["brk"], log[-600:]),
                        dict(kind="crash", stream=stream, scenario=enc_sc(scs[k]), log=log))
            found = True
        mlines = []; idx = []
        for sc in scs:
            ml = model_lines(sc); idx.append((len(mlines), len(ml))); mlines += ml
        _, mo, _ = vlib.run_lines(model, mlines) if mlines else (0, [], "")
        for sc, (data, closed), (a, k) in zip(scs, res, idx):
            meaning = backend_meaning(sc, mo[a:a + k])
            total += 1; complete += meaning[0] == "complete"
            key = "%s/%s/%s" % (sc["kind"], sc["brk"] or "ok", meaning[0]); dist[key] = dist.get(key, 0) + 1
            why = judge(sc, meaning, data, closed, [sc["method"], b"GET"])
            if not why and "h2" in sc:
                why = judge_h2(sc, meaning, sc["h2"]); dist["over-http2"] = dist.get("over-http2", 0) + 1
            klass = None
            if isinstance(why, tuple): why, klass = why
            if why:
                key = "c10:" + (klass or re.sub(r"b'[^']*'|b\"[^\"]*\"|\d+", "#", why)[:70])
                if not any(k == key for k, _ in ctx.known): found = True
                ctx.violate(key, "C10 fails on the implementation (stream-response-body=%d, %s backend, %s): %s"
                            % (stream, sc["kind"], sc["brk"] or "well-formed response", why),
                            dict(kind="monitor", stream=stream, scenario=enc_sc(sc), why=why, client_head=data[:300].decode("latin-1")))
        ctx.cov["correspondence"]["relay-stream%d" % stream] = dict(scenarios=len(res))
    ctx.cov["evaluations"] += total; ctx.cov["distinct_nontrivial"] += complete
    ctx.cov["distribution"] = dict(scenarios_by_backend_breakage_meaning=dist)
    ctx.cov["rule"] = ("stream-response-body 0/1/2 x backends FastCGI (content cut into records of 1..65535 bytes, padding 0..255 incl. padding that looks like a record, STDERR and "
                       "unknown records interleaved), HTTP (Content-Length / chunked with upper-case sizes and extensions / EOF), SCGI x statuses 200/201/204/206/302/304/404/500 x "
                       "header sets (repeated Set-Cookie, long values) x bodies 0..200000 bytes x TCP segmentation (0-3 cuts, aimed at record/padding/header boundaries) x "
                       "breakage: truncation at aimed and random offsets with close or reset, header line without colon / control byte, Content-Length larger than body, malformed "
                       "chunk framing, missing END_REQUEST, non-FastCGI garbage, early close; each followed by a pipelined static request; non-trivial = complete backend response relayed")
    if not ok and not found:
        ctx.proof_broken_violation()


def replay(ctx, path):
    import shutil
    obj = json.load(open(path)); rp = obj["replay"]
    sj = rp.get("scenario")
    if not sj or not sj.get("segments"):
        print(rp); shutil.rmtree(ctx.scratch, ignore_errors=True); return 1
    segs = [(bytes.fromhex(d), dl) for d, dl in sj["segments"]]
    sc = dict(kind=sj["kind"], sid=sj["sid"], brk=sj["brk"], end=sj["end"], frame=sj["frame"], status=sj["status"], method=sj["method"].encode(),
              segments=segs, stream=b"".join(d for d, _ in segs))
    model = vlib.model_driver("C10")
    res, crashed, log = run_stream_mode(ctx, rp.get("stream", 1), [sc], model)
    _, mo, _ = vlib.run_lines(model, model_lines(sc)) if model_lines(sc) else (0, [], "")
    meaning = backend_meaning(sc, mo)
    why = judge(sc, meaning, res[0][0], res[0][1], [sc["method"], b"GET"]) if res else "no result"
    if isinstance(why, tuple): why = why[0]
    print("backend meaning:", meaning[0], "client:", res[0][0][:200] if res else None); print("monitor:", why)
    shutil.rmtree(ctx.scratch, ignore_errors=True)
    return 1 if (why or crashed) else 0
