"""C14, system level: the real configuration parser, the real evaluator and the real per-request patching of plugin settings.
A random condition tree is written as lighttpd.conf text (nesting, else-chains, every operator); each block sets some of three
directives (server.tag, setenv.set-response-header, setenv.add-response-header) to its own number.  Requests with chosen Host / path /
query / client address (X-Forwarded-For through mod_extforward, which rewrites the address and calls config_cond_cache_reset_item) show,
in their response headers, which block's value won for each directive.  Expected: the last block in file order that applies and sets the
directive - 'applies' computed by the Coq model (Cond.CondModel.check_cond over the tree in the parser's numbering) and, independently, by the
language reference of props/C14.py."""
import os, socket, threading
import vlib, srv
from vlib import hx

URL, HOST, RIP, QS, SCHEME = 2, 3, 8, 9, 10
COMPS = [URL, HOST, QS, RIP, SCHEME]
NAMES = {URL: "url", HOST: "host", RIP: "remoteip", QS: "querystring", SCHEME: "scheme"}
OPN = {1: "==", 2: "=~", 3: "!=", 4: "!~", 5: "=^", 6: "=$"}
VALS = {URL: [b"/x/1", b"/x/", b"/y/i.php", b"/", b"/secret.inc", b"/secret.inc/x", b"/X/1"],
        HOST: [b"a.example", b"a.example:8080", b"a.example:65535", b"b.example", b"a.exampl", b"A.EXAMPLE"],
        QS: [b"", b"a=1", b"debug", b"a=1&debug"],
        RIP: [b"127.0.0.1", b"10.0.0.1", b"10.0.0.10", b"10.1.2.3", b"::1", b"2001:db8::1", b"2001:db8:1::1", b"192.168.1.77"],
        SCHEME: [b"http"]}
OPERANDS = {URL: [(1, b"/x/1"), (5, b"/x/"), (6, b".php"), (6, b".inc"), (2, b"\\.inc$"), (2, b"^/x/"), (4, b"^/y/"), (3, b"/"), (2, b"secret"), (2, b"^/$")],
            HOST: [(1, b"a.example"), (3, b"a.example"), (1, b"a.example:8080"), (2, b"^a\\."), (6, b".example"), (1, b"b.example"), (4, b"example$"), (1, b"a.example:65535")],
            SCHEME: [(1, b"https"), (3, b"https"), (1, b"http"), (2, b"^http")], QS: [(1, b""), (2, b"debug"), (3, b"a=1"), (5, b"a=")],
            RIP: [(1, b"127.0.0.1"), (3, b"10.0.0.1"), (1, b"10.0.0.0/8"), (3, b"10.0.0.0/8"), (1, b"10.0.0.0/24"), (1, b"10.0.0.8/29"),
                  (1, b"2001:db8::/32"), (3, b"2001:db8::/48"), (1, b"::1"), (1, b"192.168.1.64/26"), (1, b"10.0.0.1/32")]}
DIRS = ["tag", "set", "add"]


def gen_tree(rng, maxn, aimed=False):
    """(parent, prev, comp, op, operand, sets) in the parser's numbering (blocks numbered as they open); under one parent a (comp, operand)
    pair is used once (the parser merges blocks with the same key), a bare else ends its chain"""
    n = rng.randrange(2 if aimed else 1, maxn + 1)
    raw = []
    last = {}
    used = {}
    for i in range(1, n + 1):
        parent = rng.choice([0] * 3 + list(range(1, i))) if i > 1 else 0
        prev = 0
        if parent in last and raw[last[parent] - 1][3] != 7 and rng.random() < 0.4:
            prev = last[parent]
        if aimed and i <= 2:
            # a chain headed by a test of the client address whose answer differs between the peer (127.0.0.1) and the forwarded address:
            # what was cached for the chain before mod_extforward ran must all be forgotten
            parent = 0
            if i == 1:
                comp = RIP; op, operand = rng.choice([(1, b"10.0.0.0/8"), (3, b"10.0.0.0/8"), (1, b"127.0.0.1"), (3, b"127.0.0.1"), (1, b"10.0.0.1/32")])
                used.setdefault(0, set()).add((comp, operand))
                raw.append((0, 0, comp, op, operand, list(DIRS))); last[0] = 1
                continue
            prev = 1
        if prev and rng.random() < 0.3:
            comp, op, operand = raw[prev - 1][2], 7, b""
        else:
            for _ in range(30):
                comp = rng.choice(COMPS)
                op, operand = rng.choice(OPERANDS[comp])
                # the parser rewrites simple anchored regexes into prefix/suffix/equality tests and merges blocks whose conditions then
                # coincide (two blocks setting the same directive are then refused as duplicates): one literal per parent and attribute
                lit = operand.replace(b"\\", b"").strip(b"^$")
                if (comp, lit) not in used.setdefault(parent, set()): break
            else:
                continue
            used[parent].add((comp, lit))
        sets = [d for d in DIRS if rng.random() < 0.6]
        raw.append((parent, prev, comp, op, operand, sets))
        last[parent] = len(raw)
    # renumber in the order the blocks open in the text (depth first; an else-branch right after the subtree of its predecessor)
    kids = {}
    for i, nd in enumerate(raw, 1): kids.setdefault(nd[0], []).append(i)
    order = []
    def walk(p):
        for c in kids.get(p, []):
            order.append(c); walk(c)
    walk(0)
    new = {0: 0}
    for k, old in enumerate(order, 1): new[old] = k
    nodes = [None] * len(order)
    for old in order:
        p, pv, comp, op, operand, sets = raw[old - 1]
        nodes[new[old] - 1] = (new[p], new[pv], comp, op, operand, sets)
    return nodes


def conf_text(nodes):
    kids = {}
    for i, nd in enumerate(nodes, 1): kids.setdefault(nd[0], []).append(i)
    def directives(i, ind):
        out = []
        sets = DIRS if i == 0 else nodes[i - 1][5]
        if "tag" in sets: out.append('%sserver.tag = "t%d"' % (ind, i))
        if "set" in sets: out.append('%ssetenv.set-response-header = ("X-D1" => "%d")' % (ind, i))
        if "add" in sets: out.append('%ssetenv.add-response-header = ("X-D2" => "%d")' % (ind, i))
        return out
    def block(i, ind):
        p, pv, comp, op, operand, sets = nodes[i - 1]
        head = ("else " if pv else "")
        if op != 7:
            head += '$HTTP["%s"] %s "%s" ' % (NAMES[comp], OPN[op], operand.decode())
        lines = [ind + head + "{"] + directives(i, ind + "  ")
        for c in kids.get(i, []): lines += block(c, ind + "  ")
        return lines + [ind + "}"]
    lines = directives(0, "")
    for c in kids.get(0, []): lines += block(c, "")
    return "\n".join(lines) + "\n"


def tokens(nodes):
    return " ".join("n:%d:%d:%d:%d:%s" % (p, pv, c, o, hx(s)) for p, pv, c, o, s, _ in nodes)


def expected(nodes, flags):
    out = {}
    for d in DIRS:
        w = 0
        for i, nd in enumerate(nodes, 1):
            if flags[i - 1] == "1" and d in nd[5]: w = i
        out[d] = w
    return out


def read_response(f):
    line = f.readline()
    if not line.startswith(b"HTTP/1."): return None
    st = int(line.split()[1]); hs = {}; n = 0
    while True:
        l = f.readline()
        if l in (b"\r\n", b"\n", b""): break
        k, _, v = l.partition(b":")
        hs.setdefault(k.strip().lower(), []).append(v.strip())
        if k.strip().lower() == b"content-length": n = int(v.strip())
    if n: f.read(n)
    return st, hs


def observe(hs):
    def one(k):
        v = hs.get(k, [])
        return ",".join(x.decode("latin-1") for x in v)
    tag = one(b"server"); d1 = one(b"x-d1"); d2 = one(b"x-d2")
    return dict(tag=tag[1:] if tag.startswith("t") else tag, set=d1, add=d2)


def run_tree(ctx, k, nodes, reqs, sanitize):
    """-> list of (status, observed dict) per request, or an error string"""
    s = srv.Server(ctx, "cond%d" % k, 'extforward.forwarder = ("127.0.0.1" => "trust")\n' + conf_text(nodes), files={"/x/1": b"one", "/y/i.php": b"php", "/secret.inc": b"s", "/X/1": b"X"},
                   modules=["mod_extforward", "mod_setenv"], sanitize=sanitize)
    try:
        s.start()
    except vlib.BuildError as e:
        return "config refused: %s" % str(e)[-300:]
    res = []
    try:
        for conn in reqs:
            c = s.connect(timeout=5.0); f = c.makefile("rb")
            try:
                for (vals, last) in conn:
                    path = vals[URL].decode() + ("?" + vals[QS].decode() if vals[QS] else "")
                    c.sendall(("GET %s HTTP/1.1\r\nHost: %s\r\nX-Forwarded-For: %s\r\n%s\r\n" % (path, vals[HOST].decode(), vals[RIP].decode(), "Connection: close\r\n" if last else "")).encode())
                    r = read_response(f)
                    res.append(r if r is None else (r[0], observe(r[1])))
            finally:
                f.close(); c.close()
    except (OSError, ValueError) as e:
        res.append("i/o: %r" % e)
    rc = s.stop()
    if rc not in (0, 1, -15, None): res.append("server exit %r: %s" % (rc, (getattr(s, "out", "") or "")[-800:]))
    return res


def run_system(ctx, C14):
    rng = ctx.rng
    thorough = ctx.tier == "thorough"
    ntree = 500 if thorough else 90
    trees = []
    for k in range(ntree):
        aimed = rng.random() < 0.4
        nodes = gen_tree(rng, 9 if thorough else 7, aimed)
        reqs = []
        for _ in range(rng.randrange(2, 5)):
            conn = []
            m = rng.randrange(1, 4)
            vals = {c: rng.choice(VALS[c]) for c in COMPS}
            if aimed and rng.random() < 0.7: vals[RIP] = rng.choice([b"10.0.0.1", b"10.1.2.3"])
            for j in range(m):
                if j:    # the next request on the same connection differs in one or two attributes (what a stale cached result would miss)
                    vals = dict(vals)
                    for c in rng.sample([URL, HOST, QS, RIP], rng.choice([1, 1, 2])): vals[c] = rng.choice(VALS[c])
                conn.append((vals, j == m - 1))
            reqs.append(conn)
        trees.append((nodes, reqs))
    results = [None] * ntree
    def work(lo):
        for k in range(lo, ntree, 8):
            results[k] = run_tree(ctx, k, trees[k][0], trees[k][1], thorough)
    th = [threading.Thread(target=work, args=(i,)) for i in range(8)]
    for t in th: t.start()
    for t in th: t.join()
    # the model and the language reference on the same requests
    lines = []; where = []
    for k, (nodes, reqs) in enumerate(trees):
        for conn in reqs:
            for (vals, _) in conn:
                mv = dict(vals); mv[HOST] = vals[HOST].lower()
                lines.append(tokens(nodes) + " ; " + " ".join("S:%d:%s" % (c, hx(mv[c])) for c in COMPS) + " P")
                # the core settings (server.tag) are patched before mod_extforward substitutes the client address: they see the peer's
                pv = dict(mv); pv[RIP] = b"127.0.0.1"
                lines.append(tokens(nodes) + " ; " + " ".join("S:%d:%s" % (c, hx(pv[c])) for c in COMPS) + " P")
                where.append((k, mv))
    model = vlib.model_driver("C14")
    _, out_m, _ = vlib.run_lines_sharded(model, lines)
    nreq = 0; dis = 0; refdis = 0; applied = 0; refused = 0
    pos = 0
    for k, (nodes, reqs) in enumerate(trees):
        res = results[k]
        flat = [(vals, last) for conn in reqs for (vals, last) in conn]
        if isinstance(res, str):
            refused += 1; pos += len(flat)
            ctx.violate("condsys-config-refused", "C14 (system): the generated configuration was refused by the server: %s\n%s" % (res, conf_text(nodes)),
                        dict(kind="condsys", conf=conf_text(nodes), why=res))
            continue
        for j, (vals, last) in enumerate(flat):
            flags = out_m[2 * pos] if 2 * pos + 1 < len(out_m) else ""
            flags_core = out_m[2 * pos + 1] if 2 * pos + 1 < len(out_m) else ""
            kk, mv = where[pos]; pos += 1
            ref = "".join("1" if x else "0" for x in C14.ref_applies([nd[:5] for nd in nodes], mv))
            pv = dict(mv); pv[RIP] = b"127.0.0.1"
            ref_core = "".join("1" if x else "0" for x in C14.ref_applies([nd[:5] for nd in nodes], pv))
            got = res[j] if j < len(res) else None
            nreq += 1
            if not isinstance(got, tuple):
                ctx.violate("condsys-no-response", "C14 (system): request %d got no response (%r)\n%s" % (j, got, conf_text(nodes)), dict(kind="condsys", conf=conf_text(nodes), why=repr(got)))
                break
            exp_m = expected(nodes, flags); exp_r = expected(nodes, ref)
            exp_m["tag"] = expected(nodes, flags_core)["tag"]; exp_r["tag"] = expected(nodes, ref_core)["tag"]
            obs = got[1]
            if "1" in ref: applied += 1
            bad_r = [d for d in DIRS if obs[d] != str(exp_r[d])]
            bad_m = [d for d in DIRS if obs[d] != str(exp_m[d])]
            if bad_m: dis += 1
            if bad_r:
                refdis += 1
                d = bad_r[0]
                what = {"tag": "server.tag", "set": "setenv.set-response-header", "add": "setenv.add-response-header"}[d]
                req = "GET %s%s Host: %s from %s (request %d of its connection batch)" % (vals[URL].decode(), ("?" + vals[QS].decode()) if vals[QS] else "", vals[HOST].decode(), vals[RIP].decode(), j)
                ctx.violate("condsys:%s" % d, "C14 fails on the implementation: %s took the value of block %s, the configuration language says block %d (blocks applying: %s; model: %s); %s\n%s"
                            % (what, obs[d] or "<none>", exp_r[d], ref, flags, req, conf_text(nodes)),
                            dict(kind="condsys", conf=conf_text(nodes), requests=[[dict((NAMES[c], v.decode()) for c, v in vals.items()), last] for conn in reqs for (vals, last) in conn],
                                 failing=j, observed=obs, expected=exp_r, model=exp_m))
            elif bad_m:
                ctx.violate("condsys-model", "C14 (system): the model's evaluation (%s) differs from the server (and from the language reference %s): %s\n%s" % (flags, ref, obs, conf_text(nodes)),
                            dict(kind="condsys", conf=conf_text(nodes), why="model differs"))
    ctx.cov["evaluations"] += nreq
    ctx.cov["correspondence"]["condsys"] = dict(configurations=ntree, requests=nreq, disagreements_with_model=dis, disagreements_with_language=refdis, requests_with_some_block_applying=applied, refused=refused)
    ctx.cov["distribution"]["condsys"] = dict(blocks=sum(len(t[0]) for t in trees), else_branches=sum(1 for t in trees for nd in t[0] if nd[1]), bare_else=sum(1 for t in trees for nd in t[0] if nd[3] == 7),
                                              nested=sum(1 for t in trees for nd in t[0] if nd[0]), keepalive_followups=sum(len(c) - 1 for t in trees for c in t[1]))
    return dis + refdis + refused
