"""URL path -> filesystem path mapping stages (alias, simple-vhost, evhost, userdir, X-Sendfile, WebDAV Destination, symlink walk):
shared by C02 (containment) and C20 (mapping as documented).
Model: coq/Roots/RootsModel.v ; unit harness: harness/roots_h.c ; system: the real server with debug.log-request-handling."""
import itertools, os, re
import vlib
from vlib import hx, unhx

LINK = [s for s in vlib.COMMON_SRC if s != "stat_cache.c"]     # harness/roots_h.c includes stat_cache.c itself (virtual lstat)


def words(alpha, maxlen, minlen=0):
    for n in range(minlen, maxlen + 1):
        for t in itertools.product(alpha, repeat=n):
            yield b"".join(t)


def segs(p):
    return p.split(b"/")


def has_dot(p):
    return any(s in (b".", b"..") for s in segs(p))


ALIAS_SETS = [
    [(b"/al/", b"/srv/alias1/")],
    [(b"/nos", b"/srv/a2/")],                # key without, value with trailing slash: the guarded combination
    [(b"/pre", b"/srv/a3")],
    [(b"/sl/", b"/srv/a4")],
    [(b"", b"/srv/e/")],
    [(b"/a/b", b"/y/"), (b"/a", b"/x/")],
    [(b"/a", b"/srv/www/a")],                # value == basedir + key: remap is the identity
    [(b"/.", b"/srv/dots/")], [(b"/n.", b"/srv/nd/")],
]
UD_CONFS = [
    # active path base letter excl incl
    (1, b"public_html", b"/home", 0, [], None),
    (1, b"public_html", b"/home/", 1, [], None),
    (1, b"/www/", b"/home", 0, [b"root", b"u."], None),
    (1, b"web", b"/h", 0, [], [b"u", b"uu", b".u"]),
    (0, b"web", b"/h", 0, [], None),
    (1, None, b"/h", 0, [], None),
]
EV_PATTERNS = [b"/srv/ev/%_/", b"/srv/ev/%0/%3/", b"/srv/%2.%1/htdocs", b"/v/%{3.1}/%{3.2}/%3", b"/v/%%/%4%{0}", b"/v/%{1.0}/%{2.9}/", b"/v/%x", b"/v/%{a}", b"/v/%{1.x}",
               b"/v/%{1", b"/v/%", b"%1", b"", b"/v/%{12}/", b"/v/%0/%1/%2/%3/%4/%5/%6/%7/%8/%9/"]


def ud_tokens(c):
    active, path, base, letter, excl, incl = c
    t = [str(active), "~" if path is None else hx(path), hx(base), str(letter), str(len(excl))] + [hx(e) for e in excl]
    t += ["~"] if incl is None else [str(len(incl))] + [hx(i) for i in incl]
    return t


def gen_unit_cases(ctx):
    rng = ctx.rng; thorough = ctx.tier == "thorough"
    cases = []; dist = {}
    # mod_alias_remap: exhaustive tails after (a prefix of) every key
    k0 = len(cases)
    tails = list(words([b"/", b".", b"a"], 6 if thorough else 5))
    for al in ALIAS_SETS:
        altok = " ".join("%s %s" % (hx(k), hx(v)) for k, v in al)
        heads = {b"", b"/", b"/zz"}
        for k, _ in al:
            heads |= {k, k[:-1], k + b"x"}
        for base in (b"/srv/www", b"/srv/www/", b"/"):
            b0 = base[:-1] if base.endswith(b"/") else base
            for h in heads:
                for w in tails:
                    cases.append("A %s %s %d %s" % (hx(base), hx(b0 + h + w), len(al), altok))
        for p in (b"", b"/s", b"/srv/ww"):
            cases.append("A %s %s %d %s" % (hx(b"/srv/www"), hx(p), len(al), altok))
    dist["alias"] = len(cases) - k0
    # simple-vhost path construction
    k0 = len(cases)
    hosts = list(words([b"a", b".", b":", b"8", b"/"], 4)) + [b"www.example.org", b"www.example.org:8080", b"[::1]:80", b"a..b", b"..", b"a/../.."]
    for sroot in (b"/srv/vh/", b"/srv/vh", b""):
        for droot in (None, b"htdocs", b"/htdocs/", b"", b"/"):
            for h in hosts + [None]:
                cases.append("V %s %s %s" % (hx(sroot), "~" if h is None else hx(h), "~" if droot is None else hx(droot)))
    dist["simple_vhost"] = len(cases) - k0
    # evhost: pattern parsing and host splitting
    k0 = len(cases)
    ehosts = list(words([b"a", b"b", b".", b":", b"1"], 6 if thorough else 5, 1)) + [b"www.example.org", b"a.b.c.d.e.f.g.h.i.j.k.l:80", b"[::1]", b"[::1]:8080", b"[fe80::1", b"[1.2]x:1", b"[]",
                                                                                b"sub2.sub1.domain.tld", b"127.0.0.1:81", b"x..y", b".a.b", b"a.b.", b"a.b.:80"]
    for pat in EV_PATTERNS:
        for h in ehosts:
            cases.append("E %s %s" % (hx(pat), hx(h)))
    for _ in range(20000 if thorough else 3000):
        pat = b"".join(rng.choice([b"/", b"v", b"%", b"%%", b"%_", b"%0", b"%1", b"%2", b"%3", b"%{", b"}", b"%{1}", b"%{2.1}", b"%{0.3}", b".", b"x"]) for _ in range(rng.randrange(1, 8)))
        h = b"".join(rng.choice([b"a", b"bc", b".", b".", b":", b"80", b"[", b"]"]) for _ in range(rng.randrange(1, 8)))
        cases.append("E %s %s" % (hx(pat), hx(h)))
    dist["evhost"] = len(cases) - k0
    # userdir
    k0 = len(cases)
    names = list(words([b"u", b".", b"/", b"-", b"A", b"~", b"%", b"r"], 5 if thorough else 4))
    for c in UD_CONFS:
        ct = " ".join(ud_tokens(c))
        for w in names:
            cases.append("U %s %s" % (ct, hx(b"/~" + w)))
        for u in (b"/", b"/x", b"/~", b"/~root/x", b"/~u./x", b"/~uu/a/b", b"/~" + b"u" * 255 + b"/x", b"/~" + b"u" * 256 + b"/x", b"/x~u/", b"/~u_1/", b"/~\xc3\xa9/"):
            cases.append("U %s %s" % (ct, hx(u)))
    dist["userdir"] = len(cases) - k0
    # symlink walk over a virtual lstat
    k0 = len(cases)
    segsets = [b"a", b"b", b"l"]
    paths = [b"/" + b"/".join(t) for n in range(1, 4) for t in itertools.product(segsets, repeat=n)]
    for _ in range(30000 if thorough else 4000):
        name = rng.choice(paths) + rng.choice([b"", b"", b"/", b"//"])
        tbl = {}
        for p in paths:
            r = rng.random()
            if r < 0.55: tbl[p] = "D"
            elif r < 0.7: tbl[p] = "L"
            elif r < 0.8: tbl[p] = "F"
        # mostly give the walk something to find: every prefix of the name exists
        if rng.random() < 0.8:
            parts = name.strip(b"/").split(b"/")
            for i in range(1, len(parts) + 1):
                p = b"/" + b"/".join(x for x in parts[:i] if x)
                tbl.setdefault(p, "D")
        # lstat("x/") on a directory or a symlink to one succeeds and is never S_ISLNK; keep that fidelity in the table
        ext = {}
        for p, kd in tbl.items():
            if kd != "F": ext[p + b"/"] = "D"; ext[p + b"//"] = "D"
        tbl.update(ext)
        items = list(tbl.items())
        cases.append("L %s %d %s" % (hx(name), len(items), " ".join("%s %s" % (hx(p), kd) for p, kd in items)))
    for name in (b"", b"/", b"a/b", b"/" + b"a" * 4095, b"/" + b"a" * 4094):
        cases.append("L %s 1 %s D" % (hx(name) if name else "-", hx(name) if name else "-"))
    dist["symlink_walk"] = len(cases) - k0
    ctx.cov["distribution"]["roots_unit"] = dist
    return cases


def monitor_unit(case, impl_line):
    """containment, judged on one in-process observation"""
    t = case.split(); o = impl_line.split()
    try:
        if t[0] == "A" and o[0] == "T":
            base, path = unhx(t[1]), unhx(t[2]); out = unhx(o[1])
            n = int(t[3]); al = [(unhx(t[4 + 2 * i]), unhx(t[5 + 2 * i])) for i in range(n)]
            b0 = base[:-1] if base.endswith(b"/") else base
            if path.startswith(b0 + b"/") and not has_dot(path[len(b0):]) and not any(has_dot(v) for _, v in al):
                if b".." in segs(out):
                    return "alias remap of %r yields %r, which climbs out of the alias target" % (path, out)
                if out != path and not any(out.startswith(v) for _, v in al):
                    return "alias remap of %r yields %r, not under any alias target" % (path, out)
        elif t[0] == "U" and o[0] == "T":
            out = unhx(o[1]); uri = unhx(t[-1]); base = unhx(t[3])
            if not has_dot(uri) and (b".." in segs(out) or not out.startswith(base)):
                return "userdir maps %r to %r, outside userdir.basepath %r" % (uri, out, base)
        elif t[0] == "L" and o[0] == "0":
            name = unhx(t[1]); n = int(t[2]); tbl = {unhx(t[3 + 2 * i]): t[4 + 2 * i] for i in range(n)}
            cur = name
            while True:
                if tbl.get(cur) == "L":
                    return "stat_cache_path_contains_symlink(%r) = 0 although %r is a symbolic link" % (name, cur)
                i = cur.rfind(b"/")
                if i <= 0: break
                cur = cur[:i]
    except Exception as e:
        return "harness output malformed (%s): %r" % (type(e).__name__, impl_line[:200])
    return None


def describe_unit(case):
    t = case.split()
    d = lambda x: None if x == "~" else unhx(x)
    if t[0] == "A":
        n = int(t[3])
        return "mod_alias_remap(basedir=%r, physical.path=%r, alias.url=%r)" % (d(t[1]), d(t[2]), [(d(t[4 + 2 * i]), d(t[5 + 2 * i])) for i in range(n)])
    if t[0] == "V":
        return "build_doc_root_path(server-root=%r, host=%r, document-root=%r)" % (d(t[1]), d(t[2]), d(t[3]))
    if t[0] == "E":
        return "evhost.path-pattern=%r, authority=%r" % (d(t[1]), d(t[2]))
    if t[0] == "U":
        return "mod_userdir(active=%s path=%r basepath=%r letterhomes=%s ...; uri.path=%r)" % (t[1], d(t[2]), d(t[3]), t[4], d(t[-1]))
    if t[0] == "L":
        n = int(t[2])
        return "stat_cache_path_contains_symlink(%r) with lstat table %r" % (d(t[1]), {d(t[3 + 2 * i]): t[4 + 2 * i] for i in range(n)})
    return case[:200]


# ====================================================================================================== system level
import socket, threading, time, json
from concurrent.futures import ThreadPoolExecutor

CAN = b"CANARY-OUTSIDE-EVERY-ROOT:"
D_FLAGS = 9560           # default server.http-parseopts (see props/C02.py F/DEFAULT)
NOSTRICT = 9560 & ~2 & ~4   # host-strict and host-normalize off


def c_escape(b, utf8=False):
    out = []
    for c in b:
        if 0x20 <= c <= 0x7e: out.append(chr(c))
        elif c in (9, 10, 13): out.append({9: "\\t", 10: "\\n", 13: "\\r"}[c])
        else: out.append("\\x%02x" % c)
    return "".join(out)


class Tree:
    """scratch filesystem: every regular file's content names the file, files outside the designated roots carry the canary prefix"""
    def __init__(self, root):
        self.root = os.path.realpath(root); self.canaries = []; self.files = {}

    def p(self, rel): return os.path.join(self.root, rel)

    def add(self, rel, canary=False):
        path = self.p(rel); os.makedirs(os.path.dirname(path), exist_ok=True)
        data = (CAN if canary else b"FILE:") + path.encode()
        with open(path, "wb") as f: f.write(data)
        self.files[path] = data
        if canary: self.canaries.append(path)

    def mkdir(self, rel): os.makedirs(self.p(rel), exist_ok=True)

    def link(self, rel, target):
        path = self.p(rel); os.makedirs(os.path.dirname(path), exist_ok=True)
        if os.path.lexists(path): os.remove(path)
        os.symlink(target, path)

    def dirs(self):
        out = []
        for r, ds, _ in os.walk(self.root, followlinks=False):
            out.append(r.encode())
            for d in ds:
                if os.path.islink(os.path.join(r, d)): out.append(os.path.join(r, d).encode())
        return out

    def snapshot(self, under):
        """{path: content or 'D'} of everything below `under` (no symlink following)"""
        snap = {}
        for r, ds, fs in os.walk(under, followlinks=False):
            for d in ds: snap[os.path.join(r, d)] = "D"
            for f in fs:
                q = os.path.join(r, f)
                try: snap[q] = "L:" + os.readlink(q) if os.path.islink(q) else open(q, "rb").read()
                except OSError: snap[q] = "?"
        return snap


def build_tree(srv, symlinks=False):
    t = Tree(srv.root)
    for rel in ("www/index.html", "www/a/b.txt", "www/a/c/d.txt", "www/a..b/e.txt", "www/~u1/tilde.txt", "www/al/shadow.txt", "www/dav/seed.txt", "www/dav/sub/s2.txt", "www/cgi/keep.txt",
                "alias1/f.txt", "alias1/sub/g.txt", "a2/f.txt", "a3/f.txt", "a3x/f.txt", "a4/f.txt",
                "vh/default.example/htdocs/index.html", "vh/default.example/htdocs/f.txt", "vh/www.example.org/htdocs/f.txt", "vh/a..b/htdocs/f.txt", "vh/x_y/htdocs/f.txt", "vh/1.2.3.4/htdocs/f.txt",
                "ev/www.example.org/f.txt", "ev/example.org/www/f.txt", "ev/example.org/f.txt", "ev/./f.txt", "ev/org/example/f.txt",
                "home/u1/public_html/f.txt", "home/u1/public_html/d/g.txt", "home/u.2/public_html/f.txt", "home/u/u1/public_html/f.txt",
                "files/pub.txt", "files/sub/deep.txt", "files2/other.txt",
                "priv/adav/seed.txt", "priv/adav/sub/s2.txt"):
        t.add(rel)
    for rel in ("secret.txt", "outside/secret.txt", "outside/sub/s.txt", "www-x/secret.txt", "files-x/secret.txt", "files/../filesx.txt", "home/u1/private.txt", "home/secret.txt",
                "vh/htdocs/f.txt", "evx/secret.txt", "vhx/secret.txt", "alias1x/secret.txt", "priv/secret.txt", "htdocs/secret.txt", "public_html/secret.txt"):
        t.add(os.path.normpath(rel), canary=True)
    if symlinks: t.link("www/lnk", t.p("outside")); t.link("www/lnkf", t.p("secret.txt")); t.link("www/a/inl", t.p("www/a/c")); t.link("www/a/inlf", t.p("www/a/b.txt"))
    return t


def parse_log(text):
    """blocks of debug.log-request-handling output keyed by the i=<n> marker in the Request-URI"""
    blocks = {}; cur = None
    for line in text.split("\n"):
        m = re.search(r"\) (-- [a-z>\- A-Z]+|[A-Za-z\-]+(?: \(clean\))?) *(?:: (.*))?$", line)
        if not m: continue
        k, v = m.group(1), m.group(2) or ""
        if k == "Request-URI":
            mi = re.search(r"[?&]i=(\d+)$", v)
            cur = dict(uri=v, phase="uri") if mi else None
            if cur is not None: blocks.setdefault(int(mi.group(1)), []).append(cur)
        elif cur is None: continue
        elif k == "-- parsed Request-URI": cur = None
        elif k == "-- logical -> physical": cur["phase"] = "phys"
        elif k == "-- handling subrequest": cur["phase"] = "sub"
        elif k.startswith("-- "): cur["phase"] = "other"
        elif k == "URI-authority": cur["auth"] = v
        elif k == "URI-path (clean)": cur["clean"] = v
        elif cur["phase"] == "phys" and k in ("Doc-Root", "Basedir", "Rel-Path", "Path"): cur[k] = v
        elif cur["phase"] == "sub" and k == "Path": cur["subpath"] = v
    return blocks


def fetch(port, raw, timeout=4.0):
    s = socket.socket(); s.settimeout(timeout)
    try:
        s.connect(("127.0.0.1", port)); s.sendall(raw)
        data = b""
        while True:
            try: c = s.recv(65536)
            except (socket.timeout, ConnectionResetError): break
            if not c: break
            data += c
        return data
    except OSError:
        return b""
    finally:
        s.close()


def status_of(data):
    m = re.match(rb"HTTP/1\.[01] (\d{3})", data)
    return int(m.group(1)) if m else None


def body_of(data):
    i = data.find(b"\r\n\r\n")
    return data[i + 4:] if i >= 0 else b""


TRAV = [b"/../secret.txt", b"/a/../../secret.txt", b"/%2e%2e/secret.txt", b"/a/%2e%2e/%2e%2e/secret.txt", b"/..%2fsecret.txt", b"/a/..%2f..%2fsecret.txt", b"/.%2e/secret.txt",
        b"/%2e./secret.txt", b"/a/..%5c..%5csecret.txt", b"/a/%252e%252e/x", b"//..//secret.txt", b"/a/b.txt", b"/a/./b.txt", b"/a//b.txt", b"/a/c/../b.txt", b"/a/c/%2e%2e/b.txt",
        b"/a%2fb.txt", b"/a..b/e.txt", b"/a..b/../a/b.txt", b"/index.html", b"/", b"/a", b"/a/", b"/lnk/secret.txt", b"/lnkf", b"/a/inl/d.txt", b"/a/inlf", b"/%61/b.txt",
        b"/a/b.txt/..", b"/a/b.txt/.", b"/a/c/..", b"/a/...", b"/.../a", b"/a/..a/b", b"/..a/", b"/a../", b"/%c0%ae%c0%ae/secret.txt", b"/a/%ff/../b.txt", b"/a/.%00./b.txt"]
TOK = [b"/", b".", b"..", b"../", b"./", b"%2e", b"%2E", b"%2f", b"%2F", b"%5c", b"%", b"\\", b"%25", b"a", b"//", b"/.", b"+", b"%20", b"secret.txt", b"b.txt", b"al", b"~u1", b"%7e", b"~"]


def mutate(rng, s):
    s = bytearray(s)
    for _ in range(rng.randrange(1, 4)):
        op = rng.randrange(5); pos = rng.randrange(0, len(s) + 1)
        if op <= 2: s[pos:pos] = rng.choice(TOK)
        elif op == 3 and len(s) > 1: del s[rng.randrange(1, len(s))]
        else: s[pos:pos] = s[max(0, pos - 4):pos]
    if not s.startswith(b"/"): s[0:0] = b"/"
    return bytes(s).replace(b" ", b"%20").replace(b"?", b"%3f").replace(b"#", b"%23")


def gen_targets(rng, prefixes, n):
    out = []
    for pre in prefixes:
        p0 = pre[:-1] if pre.endswith(b"/") else pre
        for t in TRAV: out.append(p0 + t)
        for t in (b"", b"/", b"..", b"../", b"../secret.txt", b"./f.txt", b"f.txt", b"/f.txt", b"x/f.txt", b"../a2/f.txt", b"%2e%2e/secret.txt", b"..%2fsecret.txt", b"sub/../f.txt", b"sub/../../secret.txt"):
            out.append(pre + t)
    while len(out) < n:
        pre = rng.choice(prefixes); base = rng.choice(TRAV)
        out.append(mutate(rng, (pre[:-1] if pre.endswith(b"/") else pre) + base) if rng.random() < 0.7 else pre + mutate(rng, base)[1:])
    return out


HOSTS = [b"www.example.org", b"www.example.org:8080", b"default.example", b"nosuch.example", b"example.org", b"sub.www.example.org", b"WWW.Example.ORG", b"www.example.org.", b"1.2.3.4", b"[::1]", b"[::1]:80",
         b"a..b", b"..", b".", b"../..", b"x_y", b"a/../..", b"..:80", b"%2e%2e", b"secret.txt", b"default.example/..", b"www.example.org/../..", b".www.example.org", b"org", b"a.b.c.d.e.f", b"-", b"a-.b",
         b"example.org:", b":80", b"", b"localhost"]


def variants(t):
    R = t.root.encode()
    al = [(b"/al/", R + b"/alias1/"), (b"/nos", R + b"/a2/"), (b"/pre", R + b"/a3"), (b"/sl/", R + b"/a4")]
    alconf = "alias.url = (%s)" % ", ".join('"%s" => "%s"' % (k.decode(), v.decode()) for k, v in al)
    ud = (1, b"public_html", R + b"/home", 0, [b"root"], None)
    udl = (1, b"public_html", R + b"/home/", 1, [], None)
    V = []
    V.append(dict(name="alias", modules=["mod_alias"], conf=alconf, flags=D_FLAGS, strict=1, alias=al, prefixes=[b"/al/", b"/nos", b"/pre", b"/sl/", b"/", b"/a/"], hosts=[b"h.example"],
                  roots=[R + b"/www", R + b"/alias1", R + b"/a2", R + b"/a3", R + b"/a3x", R + b"/a4"]))
    V.append(dict(name="alias-req", modules=["mod_alias"], flags=9464, strict=1, alias=al, prefixes=[b"/al/", b"/nos", b"/pre", b"/"], hosts=[b"h.example"],
                  conf=alconf + '\nserver.http-parseopts = ("url-normalize-required" => "enable", "url-path-2f-decode" => "disable", "url-path-backslash-trans" => "enable")',
                  roots=[R + b"/www", R + b"/alias1", R + b"/a2", R + b"/a3", R + b"/a3x", R + b"/a4"]))
    V.append(dict(name="alias-nonorm", modules=["mod_alias"], flags=0, strict=1, alias=al, prefixes=[b"/al/", b"/nos", b"/pre", b"/"], hosts=[b"h.example"],
                  conf=alconf + '\nserver.http-parseopts = ("url-normalize" => "disable")',
                  roots=[R + b"/www", R + b"/alias1", R + b"/a2", R + b"/a3", R + b"/a3x", R + b"/a4"]))
    svh = 'simple-vhost.server-root = "%s/vh/"\nsimple-vhost.default-host = "default.example"\nsimple-vhost.document-root = "htdocs"' % t.root
    V.append(dict(name="svh", modules=["mod_simple_vhost"], conf=svh, flags=D_FLAGS, strict=1, svh=(R + b"/vh/", b"htdocs", b"default.example"), prefixes=[b"/"], hosts=HOSTS, roots=[R + b"/www", R + b"/vh/*/htdocs", R + b"/vh/htdocs"]))
    V.append(dict(name="svh-loose", modules=["mod_simple_vhost"], flags=NOSTRICT, strict=0, svh=(R + b"/vh/", b"htdocs", b"default.example"), prefixes=[b"/"], hosts=HOSTS, roots=[R + b"/www", R + b"/vh/*/htdocs", R + b"/vh/htdocs"],
                  conf=svh + '\nserver.http-parseopts = ("host-strict" => "disable", "host-normalize" => "disable")'))
    V.append(dict(name="svh-nodroot", modules=["mod_simple_vhost"], flags=NOSTRICT, strict=0, svh=(R + b"/vh/", None, None), prefixes=[b"/", b"/htdocs/"], hosts=HOSTS, roots=[R + b"/www", R + b"/vh"],
                  conf='simple-vhost.server-root = "%s/vh/"\nserver.http-parseopts = ("host-strict" => "disable", "host-normalize" => "disable")' % t.root))
    for nm, pat, rts in (("ev-host", b"/ev/%_/", [b"/ev"]), ("ev-parts", b"/ev/%0/%3/", [b"/ev"]), ("ev-rev", b"/ev/%1/%2", [b"/ev"])):
        for strict in (1, 0):
            V.append(dict(name=nm + ("" if strict else "-loose"), modules=["mod_evhost"], flags=D_FLAGS if strict else NOSTRICT, strict=strict, ev=R + pat, prefixes=[b"/"], hosts=HOSTS,
                          roots=[R + b"/www"] + [R + x for x in rts],
                          conf='evhost.path-pattern = "%s%s"' % (t.root, pat.decode()) + ("" if strict else '\nserver.http-parseopts = ("host-strict" => "disable", "host-normalize" => "disable")')))
    V.append(dict(name="userdir", modules=["mod_userdir"], flags=D_FLAGS, strict=1, ud=ud, prefixes=[b"/~u1/", b"/~u.2/", b"/~root/", b"/~../", b"/~./", b"/~", b"/~u1", b"/"], hosts=[b"h.example"],
                  roots=[R + b"/www", R + b"/home/*/public_html"],
                  conf='userdir.basepath = "%s/home"\nuserdir.path = "public_html"\nuserdir.exclude-user = ("root")' % t.root))
    V.append(dict(name="userdir-letter", modules=["mod_userdir"], flags=D_FLAGS, strict=1, ud=udl, prefixes=[b"/~u1/", b"/~.u/", b"/~u/", b"/~"], hosts=[b"h.example"], roots=[R + b"/www", R + b"/home/*/*/public_html"],
                  conf='userdir.basepath = "%s/home/"\nuserdir.path = "public_html"\nuserdir.letterhomes = "enable"' % t.root))
    V.append(dict(name="nosymlink", modules=[], flags=D_FLAGS, strict=1, prefixes=[b"/", b"/lnk/", b"/a/inl/", b"/a/"], hosts=[b"h.example"], roots=[R + b"/www"], nosym=True,
                  conf='server.follow-symlink = "disable"'))
    return V


def model_line(v, t, dirs, auth, target):
    R = t.root.encode()
    tok = ["P", str(v["flags"]), str(v["strict"]), hx(R + b"/www")]
    al = v.get("alias", [])
    tok += [str(len(al))] + [hx(x) for kv in al for x in kv]
    if v.get("svh"):
        sr, dr, dh = v["svh"]
        sl = lambda b: b if (b is None or b == b"" or b.endswith(b"/")) else b + b"/"      # SETDEFAULTS: buffer_append_slash() on server-root and document-root
        tok += [hx(sl(sr)), "~" if dr is None else hx(sl(dr)), "~" if dh is None else hx(dh)]
    else: tok.append("~")
    tok.append(hx(v["ev"]) if v.get("ev") else "~")
    tok += ud_tokens(v["ud"]) if v.get("ud") else ["~"]
    tok += [str(len(dirs))] + [hx(d) for d in dirs]
    tok += [hx(auth), hx(target)]
    return " ".join(tok)


def under_roots(path, roots):
    """lexical containment of a dot-free absolute path in one of the root patterns ('*' = exactly one path segment)"""
    ps = re.sub(rb"/+", b"/", path).split(b"/")
    for r in roots:
        rs = r.split(b"/")
        if len(ps) >= len(rs) and all(a == b"*" and b not in (b"", b".", b"..") or a == b for a, b in zip(rs, ps)):
            return True
    return False


def run_variant(ctx, v, model, n_targets, results):
    import srv as srvmod
    s = srvmod.Server(ctx, "roots_" + v["name"], v["conf"] + '\ndebug.log-request-handling = "enable"\nmimetype.assign = (".txt" => "text/plain", ".html" => "text/html")\nindex-file.names = ("index.html")',
                      modules=v["modules"], sanitize=(ctx.tier == "thorough"))
    t = build_tree(s, symlinks=bool(v.get("nosym")))
    rng = ctx.rng.__class__(ctx.seed * 7919 + sum(map(ord, v["name"])))
    targets = gen_targets(rng, v["prefixes"], n_targets)
    reqs = []
    for i, tg in enumerate(targets):
        host = v["hosts"][i % len(v["hosts"])] if len(v["hosts"]) > 1 and i % 3 else (rng.choice(v["hosts"]))
        if len(v["hosts"]) > 1 and rng.random() < 0.45: host = rng.choice(HOSTS[:9])        # well-formed names, so that half of the traffic reaches the mapping stage
        full = tg + b"?i=%d" % i
        reqs.append((i, host, tg, full, b"GET " + full + b" HTTP/1.1\r\nHost: " + host + b"\r\nConnection: close\r\n\r\n"))
    # the same targets over HTTP/2 (:path / :authority), every third one: ids from H2BASE up
    import h2c
    H2BASE = 1000000
    h2reqs = []
    for (i, host, tg, full, raw) in reqs[::3][:120 if len(reqs) < 1000 else 600]:
        h2reqs.append((H2BASE + i, host, tg, tg + b"?i=%d" % (H2BASE + i), None))
    def h2fetch(rq):
        try:
            c = h2c.Conn(s.port, timeout=4.0)
            try: st = c.wait([c.send_request(b"GET", rq[3], authority=rq[1])])[0]
            finally: c.close()
        except Exception:
            return b""
        if not st or not st.get("headers"): return b""
        code = dict(st["headers"]).get(b":status", b"0")
        return b"HTTP/1.1 " + code + b" h2\r\n\r\n" + st["body"]
    s.start()
    try:
        with ThreadPoolExecutor(8) as ex:
            resp = list(ex.map(lambda r: fetch(s.port, r[4]), reqs))
            resp += list(ex.map(h2fetch, h2reqs))
    finally:
        rc = s.stop()
    reqs = reqs + h2reqs
    blocks = parse_log(s.log())
    dirs = t.dirs()
    lines = []; idx = []
    for (i, host, tg, full, raw), data in zip(reqs, resp):
        b = (blocks.get(i) or [None])[0]
        if b is None or "auth" not in b: continue
        lines.append(model_line(v, t, dirs, b["auth"].encode("latin-1"), full)); idx.append(i)
    _, out_m, err_m = vlib.run_lines_sharded(model, lines) if lines else (0, [], "")
    pred = dict(zip(idx, out_m))
    st = dict(requests=len(reqs), over_http2=len(h2reqs), logged=len(idx), served=0, refused=0, disagreements=0, canary=0, statuses={})
    R = t.root.encode()
    for (i, host, tg, full, raw), data in zip(reqs, resp):
        code = status_of(data); body = body_of(data)
        st["statuses"][str(code)] = st["statuses"].get(str(code), 0) + 1
        what = "%s: GET %r with %s %r" % (v["name"], full, "Host" if raw else "HTTP/2 :authority", host)
        rep = dict(kind="system", variant=v["name"], conf=v["conf"], request=raw.decode("latin-1") if raw else "HTTP/2 GET %s authority %s" % (full.decode("latin-1"), host.decode("latin-1")),
                   status=code, body=body[:200].decode("latin-1"))
        if code == 200: st["served"] += 1
        else: st["refused"] += 1
        # --- the property itself
        mf = re.match(rb"(?:FILE:|CANARY-OUTSIDE-EVERY-ROOT:)(/.*)", body)
        if mf and not under_roots(mf.group(1), v["roots"]):
            st["canary"] += 1
            results.append(("roots-canary:%s:%s" % (v["name"], full[:40].decode("latin-1")), "a file outside every configured root was served (%s): %s" % (body[:120].decode("latin-1"), what), rep, False))
            continue
        b = (blocks.get(i) or [None])[0]
        if b is not None and "Path" in b:
            lp = b["Path"]
            segs_ = lp.split("/")
            if not lp.startswith("/") or "." in segs_ or ".." in segs_:
                results.append(("roots-dotpath:%s:%s" % (v["name"], full[:40].decode("latin-1")), "physical path %r is not absolute or keeps a dot segment: %s" % (lp, what), dict(rep, log=b), False)); continue
            if code == 200 and not under_roots(lp.encode("latin-1"), v["roots"]) and "\\x" not in lp:
                results.append(("roots-outside:%s:%s" % (v["name"], full[:40].decode("latin-1")), "request served from %r, outside the configured roots: %s" % (lp, what), dict(rep, log=b), False)); continue
        if v.get("nosym") and code == 200 and b is not None and "Path" in b:
            lp = b["Path"]; cur = lp.rstrip("/")
            while cur and cur != "/":
                if os.path.islink(cur):
                    results.append(("roots-symlink:%s:%s" % (v["name"], full[:40].decode("latin-1")), "served %r although %r is a symbolic link and server.follow-symlink is disabled: %s" % (lp, cur, what), dict(rep, log=b), False)); break
                cur = os.path.dirname(cur)
        # --- correspondence with the model
        if i not in pred: continue
        m = pred[i].split()
        if b is None: continue
        obs_clean = b.get("clean", "")
        def esc(tok): return c_escape(unhx(tok))
        bad = None
        if m[0] == "400": bad = "model rejects the target, server parsed it to %r" % obs_clean
        elif m[0] == "P":
            if esc(m[1]) != obs_clean: bad = "uri.path: model %r, server %r" % (esc(m[1]), obs_clean)
            elif "Path" not in b:
                if code not in (301, 302, 308, 403, 404, 400, 500, 501, 200): bad = "server stopped before the physical stage with %s; model maps to %r" % (code, esc(m[4]))
                elif code in (301, 403) and not v.get("ud") and not v.get("alias"): pass
            elif (esc(m[2]), esc(m[3]), esc(m[4])) != (b.get("Doc-Root"), b.get("Basedir"), b.get("Path")):
                bad = "doc_root/basedir/path: model %r, server %r" % ((esc(m[2]), esc(m[3]), esc(m[4])), (b.get("Doc-Root"), b.get("Basedir"), b.get("Path")))
        else:   # "<status> <uripath>"
            if esc(m[1]) != obs_clean: bad = "uri.path: model %r, server %r" % (esc(m[1]), obs_clean)
            elif "Path" in b or str(code) != m[0]: bad = "model answers %s before the physical stage, server %s with path %r" % (m[0], code, b.get("Path"))
        if bad:
            st["disagreements"] += 1
            results.append(("roots-correspondence:" + v["name"], "the server no longer maps requests the way the model does (correspondence roots-system broken): %s; %s" % (bad, what),
                            dict(rep, correspondence="roots-system/" + v["name"], model=pred[i], log=b), True))
    if rc not in (0, 1, -15):
        results.append(("roots-crash:" + v["name"], "server exited with %s in variant %s" % (rc, v["name"]), dict(kind="crash", variant=v["name"], log=s.log()[-2000:]), False))
    return st


# ---------------------------------------------------------------------------------------------- X-Sendfile / X-Sendfile2
XS_NAMES = [b"pub.txt", b"sub/deep.txt", b"sub/%2e%2e/pub.txt", b"sub/../pub.txt", b"./pub.txt", b"//pub.txt", b"pub%2etxt", b"%70ub.txt", b"sub%2fdeep.txt", b"sub", b"sub/", b"", b".", b"..", b"nosuch.txt",
            b"../secret.txt", b"sub/../../secret.txt", b"%2e%2e/secret.txt", b"%2E%2E%2Fsecret.txt", b"..%2fsecret.txt", b".%2e/secret.txt", b"sub/%2e%2e/%2e%2e/secret.txt", b"sub%2f..%2f..%2fsecret.txt",
            b"./%2e%2e/./secret.txt", b"%2e%2e//secret.txt", b"sub/%2e%2e%2f%2e%2e%2fsecret.txt", b"%252e%252e/secret.txt", b"..%252fsecret.txt", b"../files-x/secret.txt", b"%2e%2e/files-x/secret.txt",
            b"../files2/other.txt", b"%2e%2e/files2/other.txt", b"..%5csecret.txt", b"%c3%a9.txt", b"%ff.txt", b"%c0%ae%c0%ae/secret.txt", b"sub/%00/../../secret.txt", b"%2e%2e%00/secret.txt", b"+pub.txt"]


def xs_values(rng, R, n):
    out = []
    for base in (R + b"/files/", R + b"/files2/"):
        for nm in XS_NAMES: out.append(base + nm)
    out += [R + b"/secret.txt", R + b"/files-x/secret.txt", R + b"/filesx.txt", R + b"/files", R + b"/files/", b"files/pub.txt", b"/", b"", b".", b"..", R + b"/%66iles/pub.txt", R + b"/www/../files/pub.txt",
            R + b"/files/../files/pub.txt", R + b"/FILES/pub.txt", b"/etc/passwd", R + b"/www/index.html", R + b"/files%2fpub.txt", R[:-1] + b"%" + (b"%02x" % R[-1]) + b"/files/pub.txt"]
    while len(out) < n:
        base = rng.choice([R + b"/files/", R + b"/files2/", R + b"/files", R + b"/"])
        nm = bytearray(rng.choice(XS_NAMES))
        for _ in range(rng.randrange(0, 3)):
            pos = rng.randrange(0, len(nm) + 1)
            nm[pos:pos] = rng.choice([b"/", b".", b"..", b"../", b"%2e", b"%2E", b"%2f", b"%2F", b"%5c", b"%", b"%25", b"//", b"/.", b"sub/", b"secret.txt", b"%2e%2e", b"%2e%2e/"])
        out.append(base + bytes(nm))
    return out


def utf8_ok(raw):
    """does the percent-decoded value form valid UTF-8 (python's strict decoder; the generator only uses sequences on which it and buffer_is_valid_UTF8 agree:
    ASCII, U+00E9, lone 0xff, the overlong c0 ae)"""
    dec = re.sub(rb"%([0-9a-fA-F]{2})", lambda m: bytes([int(m.group(1), 16)]), raw)
    try: dec.decode("utf-8"); return True
    except UnicodeDecodeError: return False


def run_xsend(ctx, model, n, results):
    import srv as srvmod, backend
    fb = backend.FcgiBackend()
    conf = ('cgi.assign = (".sh" => "/bin/sh")\ncgi.x-sendfile = "enable"\ncgi.x-sendfile-docroot = ("@ROOT@/files", "@ROOT@/files2/")\n'
            'fastcgi.server = ("/fx" => (("host" => "127.0.0.1", "port" => %d, "check-local" => "disable", "x-sendfile" => "enable", "x-sendfile-docroot" => ("@ROOT@/files", "@ROOT@/files2/"))))\n'
            'debug.log-request-handling = "enable"\n' % fb.port)
    s = srvmod.Server(ctx, "roots_xsend", conf, modules=["mod_cgi", "mod_fastcgi"], sanitize=(ctx.tier == "thorough"))
    t = build_tree(s); R = t.root.encode()
    roots = [R + b"/files/", R + b"/files2/"]
    rng = ctx.rng.__class__(ctx.seed * 104729 + 5)
    vals = [v for v in xs_values(rng, R, n) if v and not re.search(rb"[\x00-\x1f\x7f]", v)]     # an empty value is no header at all
    with open(t.p("names.txt"), "wb") as f: f.write(b"\n".join(vals) + b"\n")
    with open(t.p("www/cgi/xs.sh"), "w") as f:
        f.write('n=${QUERY_STRING#i=}\nv=$(sed -n "$((n+1))p" "%s")\nprintf \'Status: 200\\r\\nContent-Type: text/plain\\r\\nX-Sendfile: %%s\\r\\n\\r\\n\' "$v"\n' % t.p("names.txt"))
    for i, v in enumerate(vals):
        v2 = v.replace(b" ", b"%20")
        fb.script(i, (lambda rid, v2=v2: [(b"".join(backend.fcgi_stdout(rid, [b"Status: 200\r\nContent-Type: text/plain\r\nX-Sendfile2: " + v2 + b" 0-\r\n\r\n"])), 0)]))
    s.start()
    obs = []
    try:
        def one(job):
            kind, i = job
            url = (b"/cgi/xs.sh?i=%d" if kind == 1 else b"/fx?id=%d") % i
            return fetch(s.port, b"GET " + url + b" HTTP/1.1\r\nHost: h.example\r\nConnection: close\r\n\r\n", timeout=8.0)
        jobs = [(1, i) for i in range(len(vals))] + [(2, i) for i in range(len(vals)) if b" " not in vals[i] and b"," not in vals[i]]
        with ThreadPoolExecutor(6) as ex:
            obs = list(ex.map(one, jobs))
    finally:
        rc = s.stop(); fb.stop()
    lines = ["X %d %d %d %s %s" % (kind, 1 if utf8_ok(vals[i]) else 0, len(roots), " ".join(hx(r) for r in roots), hx(vals[i])) for kind, i in jobs]
    _, out_m, _ = vlib.run_lines_sharded(model, lines)
    st = dict(requests=len(jobs), sent=0, refused=0, disagreements=0, outside=0)
    for (kind, i), data, m in zip(jobs, obs, out_m):
        code = status_of(data); body = body_of(data); val = vals[i]
        hdr = "X-Sendfile" if kind == 1 else "X-Sendfile2"
        what = "backend answers '%s: %s'" % (hdr, val.decode("latin-1"))
        rep = dict(kind="system", variant="xsend", conf=conf, header=hdr, value=val.decode("latin-1"), status=code, body=body[:200].decode("latin-1"))
        mf = re.match(rb"(?:FILE:|CANARY-OUTSIDE-EVERY-ROOT:)(/.*)", body)
        if code == 200 and mf: st["sent"] += 1
        else: st["refused"] += 1
        if mf and not under_roots(mf.group(1), [R + b"/files", R + b"/files2"]):
            st["outside"] += 1
            results.append(("roots-xsendfile-outside:%s:%s" % (hdr, val.replace(R, b"@ROOT@")[:60].decode("latin-1")), "%s and lighttpd sends %s, a file outside x-sendfile-docroot" % (what, mf.group(1).decode("latin-1")), rep, False))
            continue
        mt = m.split()
        bad = None
        if mt[0] == "S":
            q = unhx(mt[1])
            isfile = os.path.isfile(q) and b"\x00" not in q
            if isfile and not (code == 200 and mf and mf.group(1) == q): bad = "model sends %r, server answers %s %r" % (q, code, body[:80])
            elif not isfile and code == 200 and mf: bad = "model's path %r is not a file, server sent %r" % (q, mf.group(1))
        elif code == 200 and mf: bad = "model refuses with %s, server sent %r" % (mt[0], mf.group(1))
        elif mt[0] in ("403", "502") and str(code) != mt[0] and not (kind == 1 and mt[0] == "502" and code in (403, 502)): bad = "model refuses with %s, server with %s" % (mt[0], code)
        if bad:
            st["disagreements"] += 1
            results.append(("roots-correspondence:xsend", "the server no longer treats %s values the way the model does (correspondence roots-system/xsend broken): %s; %s" % (hdr, bad, what),
                            dict(rep, correspondence="roots-system/xsend", model=m), True))
    if rc not in (0, 1, -15):
        results.append(("roots-crash:xsend", "server exited with %s in variant xsend" % rc, dict(kind="crash", variant="xsend", log=s.log()[-2000:]), False))
    return st


# ---------------------------------------------------------------------------------------------- WebDAV Destination
DAV_DESTS = ["@P@/dst@I@.txt", "http://h.example@P@/dst@I@.txt", "http://user@h.example@P@/dst@I@.txt", "http://other.example@P@/dst@I@.txt", "https://h.example@P@/dst@I@.txt", "h.example@P@/dst@I@.txt",
             "http://h.example", "@P@/sub/dst@I@.txt", "@P@/nosuch/dst@I@.txt", "@P@/../dst@I@.txt", "@P@/%2e%2e/dst@I@.txt", "@P@/..%2fdst@I@.txt", "@P@/../../dst@I@.txt", "@P@/%2e%2e/%2e%2e/%2e%2e/dst@I@.txt",
             "/../../../../outside/dst@I@.txt", "/%2e%2e/outside/dst@I@.txt", "@P@/..%2f..%2f..%2foutside%2fdst@I@.txt", "/dst@I@.txt", "/a/dst@I@.txt", "@P@/dst@I@.txt?x=/../../y", "@P@/./dst@I@.txt", "@P@//dst@I@.txt",
             "@P@/dst@I@%2etxt", "@P@/%ff@I@.txt", "@P@/%c3%a9@I@.txt", "", "/", "@P@", "@P@/", "@P@/src@I@.txt", "@P@/src@I@.txt/x", "@P@x/dst@I@.txt", "/priv/dst@I@.txt", "/al/dst@I@.txt", "@P@/%00/dst@I@.txt",
             "@P@/a%00/../../dst@I@.txt", "//h.example@P@/dst@I@.txt", "http:/h.example@P@/dst@I@.txt", "http://h.example:80@P@/dst@I@.txt"]


def run_dav(ctx, model, rounds, results):
    import srv as srvmod
    conf = ('alias.url = ("/adav/" => "@ROOT@/priv/adav/")\n$HTTP["url"] =~ "^/(dav|adav)($|/)" { webdav.activate = "enable" }\n')
    s = srvmod.Server(ctx, "roots_dav", conf, modules=["mod_alias", "mod_webdav"], sanitize=(ctx.tier == "thorough"))
    t = build_tree(s); R = t.root.encode()
    roots = [R + b"/www", R + b"/priv/adav"]
    rng = ctx.rng.__class__(ctx.seed * 15485863 + 11)
    jobs = []
    n = 0
    for rnd in range(rounds):
        for pfx, physroot, basedir in ((b"/dav", R + b"/www/dav", R + b"/www"), (b"/adav", R + b"/priv/adav", R + b"/priv/adav/")):
            for d in DAV_DESTS:
                n += 1
                meth = rng.choice([b"MOVE", b"COPY"])
                dest = d.replace("@P@", pfx.decode()).replace("@I@", str(n)).encode()
                if rnd > 0:      # later rounds: mutate the destination
                    dest = mutate(rng, dest) if dest.startswith(b"/") else dest
                jobs.append((n, meth, pfx, physroot, basedir, dest))
    s.start()
    st = dict(operations=len(jobs), landed=0, refused=0, disagreements=0, outside=0, statuses={})
    lines = []; obs = []
    try:
        for n, meth, pfx, physroot, basedir, dest in jobs:
            uniq = b"DAVSRC-%d-" % n + os.urandom(4).hex().encode()
            rel = pfx + b"/src%d.txt" % n
            put = fetch(s.port, b"PUT " + rel + b" HTTP/1.1\r\nHost: h.example\r\nConnection: close\r\nContent-Length: %d\r\n\r\n" % len(uniq) + uniq)
            if status_of(put) not in (200, 201, 204):
                obs.append(None); lines.append("?"); continue
            before = t.snapshot(t.root)
            data = fetch(s.port, meth + b" " + rel + b" HTTP/1.1\r\nHost: h.example\r\nConnection: close\r\nDestination: " + dest + b"\r\n\r\n")
            after = t.snapshot(t.root)
            src_phys = physroot + rel[len(pfx):]
            changed = sorted(p for p in set(before) | set(after) if before.get(p) != after.get(p))
            obs.append((status_of(data), changed, [p for p in after if after[p] == uniq], uniq))
            lines.append("D %d %s %s %s %s %s %s %s" % (1 if utf8_ok(dest.split(b"?")[0]) else 0, hx(b"http"), hx(b"h.example"), hx(rel), hx(src_phys), hx(basedir), hx(R + b"/www"), hx(dest)))
    finally:
        rc = s.stop()
    _, out_m, _ = vlib.run_lines_sharded(model, lines)
    for (n, meth, pfx, physroot, basedir, dest), o, m in zip(jobs, obs, out_m):
        if o is None: continue
        code, changed, where, uniq = o
        st["statuses"][str(code)] = st["statuses"].get(str(code), 0) + 1
        src_phys = (physroot + pfx + b"/src%d.txt" % n).decode("latin-1") if False else (physroot + b"/src%d.txt" % n).decode("latin-1")
        what = "%s %s/src%d.txt with Destination: %s" % (meth.decode(), pfx.decode(), n, dest.decode("latin-1"))
        rep = dict(kind="system", variant="dav", conf=conf, method=meth.decode(), source="%s/src%d.txt" % (pfx.decode(), n), destination=dest.decode("latin-1"), status=code, changed=changed[:10])
        keyd = re.sub(r"\d+", "N", dest.decode("latin-1"))[:60]
        outside = [p for p in changed if not under_roots(p.encode("latin-1"), roots)]
        if outside:
            st["outside"] += 1
            results.append(("roots-dav-outside:%s:%s" % (pfx.decode(), keyd), "%s changed %s, outside the document root and the alias target that holds the WebDAV tree" % (what, outside[:3]), rep, False))
            continue
        mt = m.split()
        newloc = [p for p in where if p != src_phys]
        if newloc: st["landed"] += 1
        else: st["refused"] += 1
        bad = None
        if mt[0] == "P":
            dp = os.fsdecode(unhx(mt[2]))
            if newloc and os.path.normpath(newloc[0]) != os.path.normpath(dp.rstrip("/")) and not newloc[0].startswith(dp.rstrip("/") + "/"):
                bad = "model's destination path %r, file landed at %r" % (dp, newloc)
        elif newloc:
            bad = "model refuses the Destination with %s, file landed at %r" % (mt[0], newloc)
        elif mt[0] in ("400", "502") and str(code) != mt[0]:
            bad = "model refuses the Destination with %s, server answered %s" % (mt[0], code)
        if bad:
            st["disagreements"] += 1
            results.append(("roots-correspondence:dav", "the server no longer resolves Destination the way the model does (correspondence roots-system/dav broken): %s; %s" % (bad, what),
                            dict(rep, correspondence="roots-system/dav", model=m), True))
    if rc not in (0, 1, -15):
        results.append(("roots-crash:dav", "server exited with %s in variant dav" % rc, dict(kind="crash", variant="dav", log=s.log()[-2000:]), False))
    return st


def run_system(ctx, label="roots-system"):
    """every server variant, the X-Sendfile backends and the WebDAV Destination sequences; returns True when a concrete violating request was found"""
    import srv as srvmod
    srvmod.build_server(ctx.tier == "thorough")
    model = vlib.model_driver("ROOTS")
    thorough = ctx.tier == "thorough"
    results = []; stats = {}
    names = [v["name"] for v in variants(Tree(ctx.scratch))]
    def one(name):
        root = os.path.join(ctx.scratch, "srv_roots_" + name); os.makedirs(root, exist_ok=True)
        v = [x for x in variants(Tree(root)) if x["name"] == name][0]
        return name, run_variant(ctx, v, model, 2500 if thorough else 350, results)
    with ThreadPoolExecutor(5) as ex:
        futs = [ex.submit(one, n) for n in names]
        fx = ex.submit(run_xsend, ctx, model, 1500 if thorough else 260, results)
        fd = ex.submit(run_dav, ctx, model, 6 if thorough else 2, results)
        for f in futs:
            n, st = f.result(); stats[n] = st
        stats["xsend"] = fx.result(); stats["dav"] = fd.result()
    ctx.cov["correspondence"][label] = dict(cases=sum(s.get("requests", s.get("operations", 0)) for s in stats.values()),
                                            disagreements=sum(s.get("disagreements", 0) for s in stats.values()), variants=stats)
    ctx.cov["evaluations"] += sum(s.get("requests", s.get("operations", 0)) for s in stats.values())
    ctx.cov["distinct_nontrivial"] += sum(s.get("served", 0) + s.get("sent", 0) + s.get("landed", 0) for s in stats.values())
    found = False; percls = {}
    for key, what, rep, no_input in results:
        cls = key.split(":")[0] + ":" + key.split(":")[1]
        if not no_input: found = True
        percls[cls] = percls.get(cls, 0) + 1
        if percls[cls] <= 2:
            ctx.violate(key if not no_input else cls, ("C02/C20 fails on the running server: " if not no_input else "") + what, rep, no_input=no_input)
    return found


# ====================================================================================================== C20: mapping "as documented"
def ref_unit(case):
    """reference interpreter written from doc/outdated/alias.txt, simple_vhost.txt, evhost.txt: the expected harness output line, or None where
    the documentation says nothing (malformed hosts, patterns the parser refuses, the traversal guard's 403 is accepted either way)"""
    t = case.split()
    d = lambda x: None if x == "~" else unhx(x)
    if t[0] == "A":
        base, path = d(t[1]), d(t[2]); n = int(t[3]); al = [(d(t[4 + 2 * i]), d(t[5 + 2 * i])) for i in range(n)]
        b0 = base[:-1] if base.endswith(b"/") else base
        if not path or len(path) < len(b0): return ("T", path, base)
        uri = path[len(b0):]
        for k, v in al:                                     # "the first rule in order whose pattern matches"
            if uri.startswith(k): return ("T|403", v + uri[len(k):], v)     # "alias replaces exactly the matched prefix"
        return ("T", path, base)
    if t[0] == "V":
        sroot, host, droot = d(t[1]), d(t[2]), d(t[3])
        if host is None or droot is None or not sroot.endswith(b"/") or b"/" in host: return None
        h = host.split(b":")[0]
        if not h: return None                       # no host name: nothing documented
        return ("path", sroot + h + b"/" + droot.lstrip(b"/"))         # server-root + hostname + "/" + document-root
    if t[0] == "E":
        pat, auth = d(t[1]), d(t[2])
        host = auth.split(b":")[0]
        labels = host.split(b".")
        if not host or auth.startswith(b"[") or any(not re.fullmatch(rb"[A-Za-z0-9\-]+", l) for l in labels) or not re.fullmatch(rb"[^:]*(:[0-9]*)?", auth): return None
        out = b""; i = 0
        while i < len(pat):
            c = pat[i:i + 1]
            if c != b"%": out += c; i += 1; continue
            nx = pat[i + 1:i + 2]
            if nx == b"%": out += b"%"; i += 2
            elif nx == b"_": out += host; i += 2
            elif nx.isdigit():
                k = int(nx); i += 2
                if k == 0: out += b".".join(labels[-2:])
                elif k <= len(labels): out += labels[-k]
            elif nx == b"{":
                m = re.match(rb"%\{(\d)(?:\.(\d))?\}", pat[i:])
                if not m: return ("X",)
                k = int(m.group(1)); val = b".".join(labels[-2:]) if k == 0 else (labels[-k] if k <= len(labels) else b"")
                if m.group(2) is None or m.group(2) == b"0": out += val
                elif int(m.group(2)) <= len(val): out += val[int(m.group(2)) - 1:int(m.group(2))]
                i += m.end()
            else: return ("X",)
        if out and not out.endswith(b"/"): out += b"/"
        return ("path", out)
    return None


def monitor_mapping(case, impl_line):
    try:
        r = ref_unit(case)
        if r is None: return None
        o = impl_line.split()
        if r[0] == "X":
            return None if o[0] == "X" else "evhost pattern the documentation does not allow was accepted: %s" % describe_unit(case)
        if r[0] == "path":
            if o[0] == "X": return None
            got = unhx(o[0])
            return None if got == r[1] else "documented composition gives %r, the code built %r" % (r[1], got)
        if o[0] == "403": return None if "403" in r[0] else "alias answered 403 where the documentation maps the path"
        if o[0] == "T":
            got = (unhx(o[1]), unhx(o[2]))
            return None if got == (r[1], r[2]) else "documented alias mapping gives %r, the code produced %r" % ((r[1], r[2]), got)
    except Exception as e:
        return "harness output malformed (%s): %r" % (type(e).__name__, impl_line[:200])
    return None
