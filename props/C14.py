"""C14 -- conditional configuration applies exactly as the config language defines.
Model: coq/Cond/*.v ; harness: harness/cond_h.c (configfile-glue.c of the working tree on hand-built condition trees);
system level: props/condsys.py (generated lighttpd.conf on the real server: parser, evaluator, per-request patching, mod_extforward reset)."""
import os, re
import vlib
from vlib import hx, unhx

LINK = [s for s in vlib.COMMON_SRC if s != "configfile-glue.c"] + ["data_config.c"]
URL, HOST, RIP, QS, SCHEME, SOCK = 2, 3, 8, 9, 10, 1
COMPS = [URL, HOST, SCHEME, QS, RIP]
VALS = {URL: [b"/x/1", b"/x/", b"/y/i.php", b"/", b"/secret.inc", b"/secret.inc/x", b"/X/1", b""],
        HOST: [b"a.example", b"a.example:8080", b"a.example:65535", b"a.example:123456", b"b.example", b"a.exampl", b"", b"a.example:", b"A.EXAMPLE"],
        SCHEME: [b"http", b"https", b""], QS: [b"", b"a=1", b"debug", b"a=1&debug"], RIP: [b"127.0.0.1", b"10.0.0.1", b"10.0.0.10", b"10.1.2.3", b"::1", b"::ffff:10.0.0.1", b"2001:db8::1", b"2001:db8:1::1", b"192.168.1.77"]}
OPERANDS = {URL: [(1, b"/x/1"), (5, b"/x/"), (6, b".php"), (6, b".inc"), (2, b"\\.inc$"), (2, b"^/x/"), (4, b"^/y/"), (3, b"/"), (2, b"secret"), (5, b""), (2, b"^/$")],
            HOST: [(1, b"a.example"), (3, b"a.example"), (1, b"a.example:8080"), (2, b"^a\\."), (6, b".example"), (1, b"b.example"), (4, b"example$"), (1, b"a.example:65535")],
            SCHEME: [(1, b"https"), (3, b"https"), (1, b"http"), (2, b"^http")], QS: [(1, b""), (2, b"debug"), (3, b"a=1"), (5, b"a=")],
            RIP: [(1, b"127.0.0.1"), (3, b"10.0.0.1"), (2, b"^10\\."), (5, b"10.0.0.1"), (1, b"10.0.0.0/8"), (3, b"10.0.0.0/8"), (1, b"10.0.0.0/24"), (1, b"10.0.0.8/29"),
                  (1, b"2001:db8::/32"), (3, b"2001:db8::/48"), (1, b"::1"), (1, b"192.168.1.64/26"), (1, b"10.0.0.1/32"), (1, b"::ffff:10.0.0.0/104"), (1, b"::ffff:10.0.0.0/90")]}


def gen_tree(rng, maxn):
    """random tree in file order: each node picks a parent among earlier nodes (or global) and may chain to the previous sibling as else-branch"""
    nodes = []   # (parent, prev, comp, op, operand)
    n = rng.randrange(1, maxn + 1)
    last_in_chain = {}     # parent -> index of last node of the most recent chain under that parent
    for i in range(1, n + 1):
        parent = rng.choice([0] * 3 + list(range(1, i))) if i > 1 else 0
        prev = 0
        if parent in last_in_chain and rng.random() < 0.35:
            prev = last_in_chain[parent]
        comp = rng.choice(COMPS)
        if prev and rng.random() < 0.3:
            op, operand = 7, b""
        else:
            op, operand = rng.choice(OPERANDS[comp])
        nodes.append((parent, prev, comp, op, operand))
        last_in_chain[parent] = i
        # a node that is a child of `parent` ends chains of deeper levels
    return nodes


def tree_tokens(nodes):
    return " ".join("n:%d:%d:%d:%d:%s" % (p, pv, c, o, hx(s)) for p, pv, c, o, s in nodes)


def ref_local(node, vals):
    p, pv, comp, op, d = node
    l = vals.get(comp, b"")
    if comp == RIP and op in (1, 3) and not d.startswith(b"/"):
        import ipaddress
        net = ipaddress.ip_network(d.decode(), strict=False) if b"/" in d else None
        a = ipaddress.ip_address(l.decode())
        if net is None:
            m = (a == ipaddress.ip_address(d.decode()))
        else:
            cfg = ipaddress.ip_address(d.split(b"/")[0].decode()); bits = int(d.split(b"/")[1])
            if cfg.version == a.version: m = a in net
            elif cfg.version == 4: m = a.ipv4_mapped is not None and a.ipv4_mapped in net
            else:   # IPv6 (v4-mapped) rule against an IPv4 client
                m = cfg.ipv4_mapped is not None and (bits <= 96 or ipaddress.ip_address(a) in ipaddress.ip_network("%s/%d" % (cfg.ipv4_mapped, bits - 96), strict=False))
        return m if op == 1 else not m
    def host_eq():
        if comp == HOST and not d.startswith(b"/"):
            if len(l) and len(l) != len(d):
                if len(l) > len(d): return l[len(d):len(d) + 1] == b":" and len(l) - len(d) <= 6 and l[:len(d)] == d
                return d[len(l):len(l) + 1] == b":" and d[:len(l)] == l
        return l == d
    if op == 1: return host_eq()
    if op == 3: return not host_eq()
    if op in (2, 4):
        m = re.search(d, l) is not None
        return m if op == 2 else not m
    if op == 5: return l.startswith(d)
    if op == 6: return l.endswith(d)
    return True


def ref_applies(nodes, vals):
    """the configuration language: a block contributes iff its condition holds, every enclosing block contributes, and every earlier branch of its chain failed"""
    out = []
    loc = [None] + [ref_local(n, vals) for n in nodes]
    for i, (p, pv, comp, op, d) in enumerate(nodes, 1):
        ok = loc[i] and (p == 0 or out[p - 1])
        j = pv
        while ok and j:
            if loc[j]: ok = False
            j = nodes[j - 1][1]
        out.append(bool(ok))
    return out


def gen_case(rng, thorough):
    nodes = gen_tree(rng, 9 if thorough else 7)
    vals = {c: rng.choice(VALS[c]) for c in COMPS}
    ops = ["S:%d:%s" % (c, hx(v)) for c, v in vals.items()]
    expect = []     # for every P/c op: expected result string (all attributes valid throughout)
    ops_out = list(ops)
    for _ in range(rng.randrange(1, 8)):
        r = rng.random()
        if r < 0.3:
            ops_out.append("P"); expect.append("".join("1" if x else "0" for x in ref_applies(nodes, vals)))
        elif r < 0.55:
            i = rng.randrange(1, len(nodes) + 1); ops_out.append("c:%d" % i); expect.append("1" if ref_applies(nodes, vals)[i - 1] else "0")
        elif r < 0.9:
            c = rng.choice(COMPS); vals[c] = rng.choice(VALS[c]); ops_out.append("s:%d:%s" % (c, hx(vals[c])))
        else:
            c = rng.choice(COMPS); vals[c] = rng.choice(VALS[c]); ops_out += ["S:%d:%s" % (c, hx(vals[c])), "R"]
    ops_out.append("P"); expect.append("".join("1" if x else "0" for x in ref_applies(nodes, vals)))
    return tree_tokens(nodes) + " ; " + " ".join(ops_out), " ".join(expect)


def describe(case):
    tree, _, ops = case.partition(" ; ")
    names = {2: "url", 3: "host", 8: "remoteip", 9: "query", 10: "scheme", 1: "socket"}
    opn = {1: "==", 2: "=~", 3: "!=", 4: "!~", 5: "=^", 6: "=$", 7: "else"}
    out = []
    for i, t in enumerate(tree.split(), 1):
        _, p, pv, c, o, s = t.split(":")
        out.append("#%d[parent %s%s] $HTTP[%s] %s %r" % (i, p, (", else-branch of #%s" % pv) if pv != "0" else "", names.get(int(c), c), opn[int(o)], unhx(s)))
    def f(o):
        a = o.split(":")
        if a[0] in "sS": return "%s %s=%r" % ("rewrite+reset_item" if a[0] == "s" else "set", names.get(int(a[1]), a[1]), unhx(a[2]))
        return {"R": "reset", "P": "eval-all"}.get(a[0], o)
    return "; ".join(out) + " || " + ", ".join(f(o) for o in ops.split())


def run(ctx):
    ok = ctx.prove()
    rng = ctx.rng
    thorough = ctx.tier == "thorough"
    cases = []; expects = []
    cp = os.path.join(vlib.VERIF, "corpus", "C14.txt")
    for _ in range(200000 if thorough else 30000):
        c, e = gen_case(rng, thorough)
        cases.append(c); expects.append(e)
    # partially valid attribute sets (evaluation order / "decide later"): compared model vs implementation only
    extra = []
    for _ in range(40000 if thorough else 6000):
        nodes = gen_tree(rng, 6)
        vals = {c: rng.choice(VALS[c]) for c in COMPS}
        ops = ["S:%d:%s" % (c, hx(v)) for c, v in vals.items()]
        mask = 0
        for c in rng.sample(COMPS, rng.randrange(0, 5)): mask |= 1 << c
        ops.append("v:%d" % mask); ops.append("P")
        for c in COMPS:
            if rng.random() < 0.5:
                mask |= 1 << c; ops += ["v:%d" % mask, "c:%d" % rng.randrange(1, len(nodes) + 1)]
        ops += ["v:%d" % 0xffffffff, "P"]
        extra.append(tree_tokens(nodes) + " ; " + " ".join(ops))
    allc = cases + extra
    exe = vlib.cc_harness(ctx, "cond_h", link_srcs=LINK, sanitize=thorough)
    model = vlib.model_driver("C14")
    rc_i, out_i, err_i = vlib.run_lines_sharded(exe, allc)
    rc_m, out_m, err_m = vlib.run_lines_sharded(model, allc)
    ctx.cov["evaluations"] += len(allc)
    if rc_i != 0:
        ctx.violate("cond-harness-crash", "cond_h exited with %d: %s" % (rc_i, err_i[-800:]), dict(kind="crash", stderr=err_i[-3000:]))
    n = min(len(allc), len(out_i), len(out_m))
    dis = [i for i in range(n) if out_i[i] != out_m[i]]
    ctx.cov["correspondence"]["cond"] = dict(cases=len(allc), disagreements=len(dis), with_language_reference=len(cases))
    exp_all = expects + [None] * len(extra)
    def monitor(case, impl_line):
        i = idx[case]
        e = exp_all[i]
        if e is None: return None
        # the last token of the reference covers the final P; intermediate ones in order
        if impl_line != e:
            got = impl_line.split(); want = e.split()
            for k, (g, w) in enumerate(zip(got, want)):
                if g != w:
                    return "evaluation #%d applies blocks %s, the configuration language says %s" % (k + 1, g, w)
            return "evaluations %r, the configuration language says %r" % (impl_line, e)
        return None
    idx = {c: i for i, c in enumerate(allc)}
    ctx.cov["distinct_nontrivial"] += len(set(c for c, o in zip(allc, out_i) if "1" in o))
    ctx.cov["rule"] = ("random condition trees (1-7 blocks, 9 in thorough; nesting, else-chains, operators == != =~ !~ =^ =$ else over url/host/scheme/query/remote address incl. "
                       "host:port forms) x operation sequences (evaluate one / evaluate all in file order, rewrite an attribute + reset_item, set + full reset) judged against the "
                       "language reference, plus partially-valid attribute sets compared with the model; non-trivial = some block applied")
    found = vlib.judge(ctx, "C14", "cond", allc, out_i, out_m, dis, monitor, describe, "cond_h", "Cond.CondModel.check_cond/reset_item vs configfile-glue.c")
    ctx.add_samples([dict(case=describe(c)[:500], impl=o) for c, o in list(zip(allc, out_i))[:: max(1, len(allc) // 4)]][:4])
    # system level: the real parser, evaluator and per-request patching on a running server (props/condsys.py)
    import sys, condsys
    found = bool(condsys.run_system(ctx, sys.modules[__name__])) or found
    if not ok and not found:
        ctx.proof_broken_violation()


def replay(ctx, path):
    import json, shutil
    obj = json.load(open(path))
    if obj["replay"].get("kind") == "condsys":
        import condsys, srv
        rp = obj["replay"]
        print("configuration:\n" + rp.get("conf", "")); print("failing request:", rp.get("failing"), "observed then:", rp.get("observed"), "language:", rp.get("expected"), "model:", rp.get("model"))
        if not rp.get("requests") or rp.get("expected") is None:
            print("(no request list recorded: re-run ./check C14 with the same VERIF_SEED)"); return 1
        # run the recorded configuration and requests again on the current tree and look at the failing request
        s = srv.Server(ctx, "condreplay", 'extforward.forwarder = ("127.0.0.1" => "trust")\n' + rp["conf"], files={"/x/1": b"one", "/y/i.php": b"php", "/secret.inc": b"s", "/X/1": b"X"},
                       modules=["mod_extforward", "mod_setenv"])
        try:
            s.start()
        except vlib.BuildError as e:
            print("configuration refused:", str(e)[-300:]); return 1
        res = []
        try:
            conn = []
            groups = []
            for vals, last in rp["requests"]:
                conn.append((vals, last))
                if last: groups.append(conn); conn = []
            if conn: groups.append(conn)
            for g in groups:
                c = s.connect(timeout=5.0); f = c.makefile("rb")
                try:
                    for vals, last in g:
                        path = vals["url"] + ("?" + vals["querystring"] if vals["querystring"] else "")
                        c.sendall(("GET %s HTTP/1.1\r\nHost: %s\r\nX-Forwarded-For: %s\r\n%s\r\n" % (path, vals["host"], vals["remoteip"], "Connection: close\r\n" if last else "")).encode())
                        r = condsys.read_response(f)
                        res.append(None if r is None else condsys.observe(r[1]))
                finally:
                    f.close(); c.close()
        finally:
            s.stop()
        k = rp["failing"]; now = res[k] if k < len(res) else None
        print("observed now:", now)
        ok = now is not None and all(str(now[d]) == str(rp["expected"][d]) for d in rp["expected"])
        import shutil; shutil.rmtree(ctx.scratch, ignore_errors=True)
        return 0 if ok else 1
    case = obj["replay"].get("case")
    exe = vlib.cc_harness(ctx, "cond_h", link_srcs=LINK)
    model = vlib.model_driver("C14")
    _, oi, _ = vlib.run_lines(exe, [case]); _, om, _ = vlib.run_lines(model, [case])
    print("input:", describe(case)); print("impl :", oi); print("model:", om)
    shutil.rmtree(ctx.scratch, ignore_errors=True)
    return 0 if oi == om else 1
