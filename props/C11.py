"""C11 -- backend pool: only live backends used, failures fail over, load accounted.
Model: coq/Pool/*.v ; implementation: the real lighttpd of the working tree with mod_proxy over three switchable backends and
mod_status' statistics page for the load figures.
Monitor (from the property text): requests are answered by an available backend or get a 5xx (never hang); a refusing backend
sits out its disable-time and is used again afterwards; reported loads equal the requests in flight, are never negative and are zero
when idle."""
import json, os, re, socket, struct, sys, threading, time
import vlib, srv

DT = 3


class SwitchBackend:
    """HTTP backend that can serve, refuse connections (listening socket closed) or hang (accept, never answer)"""
    def __init__(self, idx):
        self.idx = idx; self.mode = "ok"; self.served = []; self.held = []; self.lock = threading.Lock(); self.stop_flag = False
        self.sock = socket.socket(); self.sock.setsockopt(socket.SOL_SOCKET, socket.SO_REUSEADDR, 1)
        self.sock.bind(("127.0.0.1", 0)); self.port = self.sock.getsockname()[1]; self.sock.listen(64)
        self.th = threading.Thread(target=self._loop, daemon=True); self.th.start()

    def set_mode(self, m):
        with self.lock:
            if m == "refuse" and self.sock:
                self.sock.close(); self.sock = None
            elif m != "refuse" and self.sock is None:
                for _ in range(50):
                    try:
                        s = socket.socket(); s.setsockopt(socket.SOL_SOCKET, socket.SO_REUSEADDR, 1); s.bind(("127.0.0.1", self.port)); s.listen(64); self.sock = s; break
                    except OSError: time.sleep(0.05)
            if m != "hang":
                for c in self.held:
                    try: c.close()
                    except OSError: pass
                self.held = []
            self.mode = m

    def _loop(self):
        while not self.stop_flag:
            with self.lock: s = self.sock
            if s is None: time.sleep(0.01); continue
            try:
                s.settimeout(0.05); c, _ = s.accept()
            except (socket.timeout, OSError): continue
            threading.Thread(target=self._serve, args=(c,), daemon=True).start()

    def _serve(self, c):
        try:
            c.settimeout(3.0); buf = b""
            while b"\r\n\r\n" not in buf:
                d = c.recv(65536)
                if not d: c.close(); return
                buf += d
            m = re.search(rb"id=(\d+)", buf)
            rid = int(m.group(1)) if m else -1
            with self.lock: mode = self.mode
            if mode == "hang":
                with self.lock: self.held.append(c); self.served.append((rid, "held"))
                return
            with self.lock: self.served.append((rid, "ok"))
            c.sendall(b"HTTP/1.1 200 OK\r\nContent-Length: 2\r\nConnection: close\r\n\r\nB%d" % self.idx)
            c.close()
        except OSError:
            try: c.close()
            except OSError: pass

    def stop(self):
        self.stop_flag = True; self.set_mode("refuse")


CONF = r'''
status.statistics-url = "/stats"
proxy.balance = "%s"
proxy.server = ("/px/" => (%s))
'''
BAL = {"rr": "round-robin", "lc": "fair", "hash": "hash"}


def get_stats(s):
    d = s.roundtrip(b"GET /stats HTTP/1.1\r\nHost: h\r\nConnection: close\r\n\r\n", timeout=5.0).decode("latin-1")
    loads = {}; disabled = {}
    for m in re.finditer(r"gw\.backend\.b(\d)\.load: (-?\d+)", d): loads[int(m.group(1))] = int(m.group(2))
    for m in re.finditer(r"gw\.backend\.b(\d)\.0\.disabled: (-?\d+)", d): disabled[int(m.group(1))] = int(m.group(2))
    act = re.search(r"gw\.active-requests: (-?\d+)", d)
    return loads, disabled, int(act.group(1)) if act else None


def gen_scenario(rng, bal):
    sc = []; rid = [0]
    def req(n=1):
        for _ in range(n): rid[0] += 1; sc.append(("req", rid[0]))
    req(rng.choice([2, 4, 5]))
    down = rng.randrange(3)
    sc.append(("mode", down, "refuse")); req(rng.choice([3, 4, 6])); sc.append(("stats",))
    if bal == "rr" or rng.random() < 0.5:
        # two of three hosts out: round-robin must keep finding the only one left (its own index is where the wrapped search ends)
        d2 = (down + rng.choice([1, 2])) % 3; sc.append(("mode", d2, "refuse")); req(4 if bal == "rr" else 3); sc.append(("mode", d2, "ok"))
    sc.append(("sleep", 1.3)); sc.append(("stats",)); req(2)
    sc.append(("mode", down, "ok")); sc.append(("sleep", DT + 2.2)); req(rng.choice([3, 6])); sc.append(("stats",))
    # requests in flight on a hanging backend, then aborted by the client
    hang = rng.randrange(3); sc.append(("mode", hang, "hang"))
    hs = []
    for _ in range(rng.choice([2, 3, 5])): rid[0] += 1; hs.append(rid[0]); sc.append(("hangreq", rid[0]))
    sc.append(("stats",))
    rng.shuffle(hs)
    for k in hs[:len(hs) // 2 + 1]: sc.append(("abort", k))
    sc.append(("stats",)); sc.append(("mode", hang, "ok")); sc.append(("stats",))
    for k in hs[len(hs) // 2 + 1:]: sc.append(("abort", k))
    # an upload the client abandons before the backend is contacted (request body is buffered first)
    rid[0] += 1; sc.append(("abortupload", rid[0]))
    sc.append(("sleep", 0.3)); sc.append(("stats",)); req(3); sc.append(("stats",))
    if rng.random() < 0.5:
        for i in range(3): sc.append(("mode", i, "refuse"))
        req(2); sc.append(("stats",))
        for i in range(3): sc.append(("mode", i, "ok"))
        sc.append(("sleep", DT + 2.2)); req(2); sc.append(("stats",))
    return sc


def run_scenario(ctx, name, bal, sc, model, sanitize=False):
    bs = [SwitchBackend(i) for i in range(3)]
    hosts = ",".join('"b%d" => ("host" => "127.0.0.1", "port" => %d, "disable-time" => %d)' % (i, b.port, DT) for i, b in enumerate(bs))
    s = srv.Server(ctx, name, CONF % (BAL[bal], hosts), files={}, modules=["mod_status", "mod_proxy"], sanitize=sanitize).start()
    mev = ["bal:%s" % bal, "n:3", "dt:%d" % DT]
    modes = ["ok"] * 3; held = {}; why = None; inflight_on = {}
    def model_now():
        _, mo, _ = vlib.run_lines(model, [" ".join(mev)])
        toks = mo[0].split()
        loads = [int(x) for x in toks[-2][6:].split(",")]; act = toks[-1][7:]
        return toks[:-2], loads, act
    try:
        for step in sc:
            k = step[0]
            if k == "mode":
                was = modes[step[1]]
                bs[step[1]].set_mode(step[2]); modes[step[1]] = step[2]; time.sleep(0.05)
                if was == "hang" and step[2] != "hang":
                    # the hanging backend closes every held connection: those requests end now
                    time.sleep(0.3)
                    for rid2 in [r_ for r_, h_ in inflight_on.items() if h_ == step[1]]:
                        mev.append("D:%d" % rid2); inflight_on.pop(rid2)
            elif k == "sleep":
                time.sleep(step[1])
                for _ in range(int(step[1]) + (2 if step[1] > 2 else 0)): mev.append("T")
            elif k in ("req", "hangreq"):
                rid = step[1]
                # model: arrive; while the model's choice is a refusing host, the connect fails and the request is retried
                mev.append("A:%d" % rid); outs, loads, act = model_now(); tries = 0
                while outs[-1].startswith("d") and modes[int(outs[-1][1:])] == "refuse" and tries < 8:
                    mev.append("F:%d" % rid); outs, loads, act = model_now(); tries += 1
                want = outs[-1]
                so = s.connect(timeout=6.0)
                so.sendall(b"GET /px/r?id=%d HTTP/1.1\r\nHost: h.example\r\nConnection: close\r\n\r\n" % rid)
                if k == "hangreq":
                    held[rid] = so
                    if want.startswith("d"): inflight_on[rid] = int(want[1:])
                    time.sleep(0.15)
                    if want.startswith("d") and modes[int(want[1:])] != "hang":
                        # an answering backend: the request completes
                        try: so.recv(4096)
                        except OSError: pass
                        mev.append("D:%d" % rid); inflight_on.pop(rid, None)
                    continue
                data = b""
                try:
                    while True:
                        c = so.recv(65536)
                        if not c: break
                        data += c
                except socket.timeout: why = "request %d hung (no answer within 6 s; backend modes %s)" % (rid, modes); break
                finally: so.close()
                m = re.match(rb"HTTP/1\.1 (\d{3})", data); st = int(m.group(1)) if m else None
                got = ("d%s" % data[-1:].decode()) if st == 200 and data[-2:-1] == b"B" else ("503" if st == 503 else "5xx" if st and st >= 500 else "st%s" % st)
                if want.startswith("d"):
                    if modes[int(want[1:])] == "hang": why = "internal: model chose a hanging backend for a plain request"; break
                    mev.append("D:%d" % rid)
                    if bal != "hash" and got != want: why = "request %d was served by %s, the model dispatches it to %s (balance %s, backend modes %s)" % (rid, got, want, bal, modes); break
                    if bal == "hash" and not (got.startswith("d") and modes[int(got[1:])] == "ok"): why = "request %d answered %s although backends %s are available" % (rid, got, [i for i in range(3) if modes[i] == "ok"]); break
                else:
                    if got.startswith("d"): why = "request %d was served by %s although the model has no available backend (%s)" % (rid, got, want); break
                    if st is None or st < 500: why = "request %d with no available backend got status %s instead of a 5xx" % (rid, st); break
            elif k == "abort":
                so = held.pop(step[1], None)
                if so: so.close(); time.sleep(0.1)
                # (lighttpd keeps the backend request until the backend lets go: it stays in flight in the model, too)
            elif k == "abortupload":
                so = s.connect(timeout=3.0)
                so.sendall(b"POST /px/r?id=%d HTTP/1.1\r\nHost: h.example\r\nContent-Length: 100000\r\n\r\n" % step[1] + b"x" * 1000)
                time.sleep(0.1); so.setsockopt(socket.SOL_SOCKET, socket.SO_LINGER, struct.pack("ii", 1, 0)); so.close(); time.sleep(0.1)
                # the host is assigned when the request head is routed (before the body is buffered); the abort releases it
                mev.append("A:%d" % step[1]); mev.append("D:%d" % step[1])
            elif k == "stats":
                time.sleep(0.1)
                loads, disabled, active = get_stats(s)
                _, mloads, mact = model_now()
                if any(v < 0 for v in loads.values()): why = "negative load figure reported: %s" % loads; break
                if bal == "hash":
                    # the model does not predict the hash choice: compare with what the backends actually hold
                    truth = [len(b.held) for b in bs]
                    if [loads.get(i) for i in range(3)] != truth:
                        why = "reported host loads %s differ from the requests the backends hold %s" % ([loads.get(i) for i in range(3)], truth); break
                elif [loads.get(i) for i in range(3)] != mloads:
                    why = "reported host loads %s differ from the requests in flight %s (held on hanging backends: %s)" % ([loads.get(i) for i in range(3)], mloads, sorted(inflight_on.items())); break
        alive = s.alive()
        # disable-time honoured?  (error log: "establishing connection failed ... :<port>" and later "gw-server re-enabled: ... <port>")
        if why is None:
            last_fail = {}
            for line in s.log().splitlines():
                tm = re.match(r"(\d+)-(\d+)-(\d+) (\d+):(\d+):(\d+):", line)
                if not tm: continue
                t_ = int(tm.group(4)) * 3600 + int(tm.group(5)) * 60 + int(tm.group(6))
                m1 = re.search(r"establishing connection failed: socket: tcp:127\.0\.0\.1:(\d+)", line)
                if m1: last_fail[int(m1.group(1))] = t_
                m2 = re.search(r"gw-server re-enabled: tcp:127\.0\.0\.1:(\d+)", line)
                if m2 and int(m2.group(1)) in last_fail and 0 <= t_ - last_fail[int(m2.group(1))] < DT:
                    why = "backend on port %s was taken back into rotation %d s after a refused connection (disable-time %d s)" % (m2.group(1), t_ - last_fail[int(m2.group(1))], DT); break
    finally:
        for so in held.values():
            try: so.close()
            except OSError: pass
        rc = s.stop()
        for b in bs: b.stop()
    crashed = (not alive) or rc in (98, 99)
    return why, crashed, s.log()[-1200:], " ".join(mev)


def run(ctx):
    ok = ctx.prove()
    model = vlib.model_driver("C11")
    srv.build_server(False)
    plans = [(b, gen_scenario(ctx.rng, b)) for b in (["rr", "lc", "hash"] if ctx.tier == "quick" else ["rr", "lc", "hash"] * 4)]
    from concurrent.futures import ThreadPoolExecutor
    with ThreadPoolExecutor(max_workers=6) as ex:
        outs = list(ex.map(lambda a: run_scenario(ctx, "p%d" % a[0], a[1][0], a[1][1], model), enumerate(plans)))
    found = False; nsteps = 0
    for (bal, sc), (why, crashed, log, mev) in zip(plans, outs):
        nsteps += len(sc)
        if crashed:
            ctx.violate("c11-server-crash", "lighttpd died (balance %s): %s" % (bal, log[-500:]), dict(kind="crash", balance=bal, scenario=[list(map(str, x)) for x in sc], log=log)); found = True
        if why:
            ctx.violate("c11:" + re.sub(r"\d+|\[[^\]]*\]", "#", why)[:70], "C11 fails on the implementation (balance %s): %s" % (bal, why),
                        dict(kind="monitor", balance=bal, scenario=[list(map(str, x)) for x in sc], model_events=mev, why=why)); found = True
    ctx.cov["correspondence"]["pool"] = dict(scenarios=len(plans), steps=nsteps)
    ctx.cov["evaluations"] += nsteps; ctx.cov["distinct_nontrivial"] += nsteps
    ctx.cov["rule"] = ("balance modes round-robin / fair / hash over three backends that are switched between serving, refusing connections and hanging: sequential requests before, during "
                       "and after the disable-time (3 s, real time), a second backend failing meanwhile, all backends down (5xx expected, no hang), 2-5 requests held in flight on a "
                       "hanging backend and aborted by the client in random order, an upload abandoned before the backend is contacted; after each phase the load figures of "
                       "mod_status are compared with the model's in-flight counts and the disabled flags with the model's availability")
    if not ok and not found:
        ctx.proof_broken_violation()


def replay(ctx, path):
    import shutil
    obj = json.load(open(path)); rp = obj["replay"]
    if "scenario" not in rp:
        print(rp); shutil.rmtree(ctx.scratch, ignore_errors=True); return 1
    sc = []
    for x in rp["scenario"]:
        if x[0] in ("req", "hangreq", "abort", "abortupload"): sc.append((x[0], int(x[1])))
        elif x[0] == "mode": sc.append((x[0], int(x[1]), x[2]))
        elif x[0] == "sleep": sc.append((x[0], float(x[1])))
        else: sc.append((x[0],))
    model = vlib.model_driver("C11")
    why, crashed, log, mev = run_scenario(ctx, "replay", rp["balance"], sc, model)
    print("monitor:", why, "crashed:", crashed)
    shutil.rmtree(ctx.scratch, ignore_errors=True)
    return 1 if (why or crashed) else 0
