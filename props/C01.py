"""C01 -- HTTP/1.x request framing is unambiguous; malformed framing is rejected.
Model: coq/H1/*.v ; harnesses: harness/h1req_h.c (header block level), props/h1conn.py (connection level, real server)"""
import os, re
import vlib
from vlib import hx, unhx
import C02, h1conn

LINK = [s for s in vlib.COMMON_SRC if s != "request.c"]

STRICT, HOST_STRICT, HOST_NORM = 1, 2, 4
URLDEF = C02.DEFAULT
FLAGSETS = [URLDEF | 7, URLDEF, (URLDEF & ~64) | 7, (URLDEF & ~64), 7, 0, URLDEF | 1, URLDEF | 4, URLDEF | 7 | 32768, URLDEF | 32768]

BASE = [
    b"GET / HTTP/1.1\r\nHost: a.example\r\n\r\n",
    b"GET /index.html?x=1&y=2 HTTP/1.0\r\n\r\n",
    b"POST /cgi/p HTTP/1.1\r\nHost: a\r\nContent-Length: 5\r\n\r\n",
    b"POST /cgi/p HTTP/1.1\r\nHost: a\r\nTransfer-Encoding: chunked\r\n\r\n",
    b"PUT /f HTTP/1.1\r\nHost: a:8080\r\nContent-Length: 0\r\nConnection: close\r\n\r\n",
    b"GET http://b.example/p/q HTTP/1.1\r\nHost: b.example\r\nConnection: keep-alive\r\n\r\n",
    b"OPTIONS * HTTP/1.1\r\nHost: a\r\n\r\n",
    b"HEAD /a/b/../c HTTP/1.1\r\nHost: a\r\nIf-None-Match: \"x\"\r\nIf-None-Match: \"y\"\r\n\r\n",
    b"GET / HTTP/1.1\r\nHost: a\r\nX-Long: a,\r\n b\r\nAccept: */*\r\n\r\n",
    b"POST / HTTP/1.0\r\nContent-Length: 3\r\nContent-Type: t/x\r\n\r\n",
    b"DELETE /%7euser/x HTTP/1.1\r\nhost: A.Example.\r\nTE: trailers\r\n\r\n",
    b"POST /u HTTP/1.1\r\nHost: a\r\nContent-Length: 12\r\nExpect: 100-continue\r\nUpgrade: h2c\r\n\r\n",
]


def header_lines(block):
    """independent, tolerant reading of a header block: (request line, [(key, value, raw_first_line, had_fold, eols)])"""
    end = None
    lines = block.split(b"\n")
    out = []
    reqline = lines[0]
    i = 1
    while i < len(lines):
        l = lines[i]
        if l in (b"", b"\r"):
            end = i
            break
        cur = l
        eols = [l.endswith(b"\r")]
        i += 1
        while i < len(lines) and lines[i][:1] in (b" ", b"\t"):
            cur = cur.rstrip(b"\r") + b" " + lines[i]
            eols.append(lines[i].endswith(b"\r"))
            i += 1
        k, sep, v = cur.partition(b":")
        out.append((k, v.rstrip(b"\r").strip(b" \t"), l, len(eols) > 1, eols))
    return reqline, out


def monitor(case, impl_line):
    """C01 clauses that can be judged on a header block: the rejected class, the declared framing, keep-alive on error."""
    try:
        t = case.split()
        flags = int(t[1]); block = unhx(t[2])
        strict = bool(flags & STRICT)
        o = impl_line.split()
        if o[0] in ("INC", "BLANK"):
            return None
        if o[0] == "R":
            if len(o) > 2:
                return "rejected request leaves keep-alive or a body length set (%s)" % o[2]
            return None
        if o[0] != "A":
            return "harness output malformed: %r" % impl_line[:100]
        head_end = block.find(b"\r\n\r\n")
        alt = block.find(b"\n\n")
        ends = [x for x in (head_end, alt) if x >= 0]
        head = block[: min(ends)] if ends else block
        reqline, hs = header_lines(block)
        rlen = int(o[7]); v11 = o[2] == "1"
        if b"\x00" in head:
            return "NUL byte in request line / header section accepted"
        cl = [v for (k, v, _, _, _) in hs if k.strip(b" \t").lower() == b"content-length"]
        te = [v for (k, v, _, _, _) in hs if k.strip(b" \t").lower() == b"transfer-encoding" and v != b""]  # an empty field value is an empty list: no coding named
        host = [v for (k, v, _, _, _) in hs if k.strip(b" \t").lower() == b"host"]
        if len(cl) > 1:
            return "repeated Content-Length accepted"
        if cl and not re.fullmatch(rb"[0-9]+", cl[0]):
            return "non-numeric Content-Length %r accepted" % cl[0]
        if cl and int(cl[0]) > 2**63 - 1:
            return "overflowing Content-Length accepted"
        for v in te:
            if v.lower() != b"chunked":
                return "Transfer-Encoding %r (not exactly chunked) accepted" % v
        if len(te) > 1:
            return "repeated Transfer-Encoding (the list 'chunked, chunked') accepted"
        if te and not v11:
            return "Transfer-Encoding on HTTP/1.0 accepted"
        if strict:
            if te and cl:
                return "Content-Length together with Transfer-Encoding accepted in strict mode"
            for (k, v, raw, folded, eols) in hs:
                if any((c < 32 and c != 9) or c == 127 for c in v):
                    return "control character in field value accepted in strict mode"
                if k[-1:] in (b" ", b"\t"):
                    return "whitespace before the field colon accepted in strict mode"
                if not all(eols):
                    return "bare LF line end accepted in strict mode"
            if not reqline.endswith(b"\r"):
                return "bare LF after request line accepted in strict mode"
            if alt >= 0 and (head_end < 0 or alt < head_end):
                return "bare LF on the blank line that ends the header section accepted in strict mode"
            m = re.match(rb"\S+ (.*) HTTP/1\.[01]\r?$", reqline, flags=re.S)
            if m and int(o[1]) != 6 and any(c < 32 or c == 127 for c in m.group(1)):  # CONNECT: see DESIGN 6.2 (answered 405+close downstream)
                return "control character in request-target accepted in strict mode"
        if v11 and not host and not re.match(rb"\S+ https?://[^/ ]+/", reqline, flags=re.I):
            return "HTTP/1.1 request without Host accepted"
        want = -1 if te else (int(cl[0]) if cl else 0)
        if rlen != want:
            return "declared framing is %s but reqbody_length=%d" % ("chunked" if te else ("Content-Length %s" % cl[0] if cl else "no body"), rlen)
        if (te and cl) and o[8] != "0":
            return "Content-Length + Transfer-Encoding accepted with keep-alive still on"
        # C02 on the derived path
        path = unhx(o[4])
        meth = int(o[1])
        if meth != 6 and not (meth == 7 and path == b"*"):  # CONNECT / OPTIONS * are never mapped to the filesystem
            if not path.startswith(b"/") or any(s in (b".", b"..") for s in path.split(b"/")) or b"\x00" in path:
                return "accepted request derives path %r (not absolute / dot segment / NUL)" % path
    except Exception as e:
        return "monitor could not read harness output (%s): %r" % (type(e).__name__, impl_line[:120])
    return None


def describe(case):
    t = case.split()
    return "http-parseopts=0x%x request-head=%r" % (int(t[1]), unhx(t[2]))


HDR_POOL = [b"Content-Length: 5", b"Content-Length: 05", b"Content-Length: 5 ", b"Content-Length:5", b"Content-Length: +5", b"Content-Length: 5,5",
            b"Content-Length: ", b"Content-Length: 9223372036854775807", b"Content-Length: 9223372036854775808", b"Content-Length: 0",
            b"content-length: 7", b"Content-Length : 5", b"Content-Length\t: 5", b"Content-Length: 5\x0b", b"Content-Length: -1", b"Content-Length: 0x10",
            b"Transfer-Encoding: chunked", b"Transfer-Encoding: Chunked", b"Transfer-Encoding: chunked ", b"Transfer-Encoding: gzip, chunked",
            b"Transfer-Encoding: xchunked", b"Transfer-Encoding: chunked, chunked", b"Transfer-Encoding: identity", b"Transfer-Encoding:", b"Transfer-Encoding : chunked",
            b"Transfer-Encoding: chunked\x00", b"transfer-encoding:\tchunked",
            b"Host: a", b"Host: b", b"Host: A", b"Host: a.", b"Host: a:80", b"Host: a:", b"Host: a:08", b"Host: a:x", b"Host: -a", b"Host: a..b", b"Host: a_b", b"Host: a/b",
            b"Host:", b"Host: a b", b"Host: a\x00", b"Host : a", b"Host: 1.2.3", b"Host: a.1", b"Host: [::1", b"Host: " + b"h" * 1024,
            b"Connection: close", b"Connection: keep-alive", b"Connection: Keep-Alive, close", b"Connection: closed", b"Connection: upgrade, close;q", b"Connection: xclose,keep-alive",
            b"If-None-Match: \"a\"", b"If-None-Match: \"b\"", b"If-Modified-Since: x", b"If-Modified-Since: y", b"Content-Type: a/b", b"Content-Type: A/B", b"Content-Type: c/d",
            b"Upgrade: h2c", b"HTTP2-Settings: AAA", b"HTTP2-Settings: BBB", b"Expect: 100-continue", b"X-A: b", b"X-A: b\x01", b"X-A: b\x7f", b"X-A: b\tc", b"X-A: \xff",
            b"X A: b", b"X(A: b", b"X-\x80: b", b"X-A", b": b", b" X-A: b", b"X-A: b\r", b"X-A: a\r\n b", b"X-A: a\n b", b"X-A:\r\n\tb", b"Content-Length:\r\n 5", b"X\x00: y", b"TE: trailers", b"TE: gzip"]
TARGETS = [b"/", b"/a/b?c=d", b"/a/../b", b"/%2e%2e/x", b"/a%00b", b"/a\x01b", b"/a b", b"/a\x7fb", b"/a\xffb", b"*", b"a", b"http://h/x", b"HTTP://H.ex:81/x?y", b"https://h2/", b"http://h", b"http:///x",
           b"/a#f", b"/a?b#c", b"//", b"/a\\b", b"h:80", b":80", b"1.2.3.4:443"]
METHODS = [b"GET", b"HEAD", b"POST", b"PUT", b"DELETE", b"CONNECT", b"OPTIONS", b"QUERY", b"PRI", b"get", b"G", b"PROPFIND", b"FOO", b""]
VERSIONS = [b"HTTP/1.1", b"HTTP/1.0", b"HTTP/1.2", b"HTTP/2.0", b"http/1.1", b"HTTP/1.1 ", b" HTTP/1.1", b"HTTP/1.", b""]


def gen_cases(ctx):
    rng = ctx.rng
    thorough = ctx.tier == "thorough"
    cases = []
    dist = {}
    # (1) every single-byte corruption of the base requests (exhaustive), under 4 flag sets (10 in thorough)
    fsets = FLAGSETS if thorough else FLAGSETS[:4]
    for b in BASE:
        for pos in range(len(b)):
            for val in range(256):
                if val == b[pos]:
                    continue
                m = b[:pos] + bytes([val]) + b[pos + 1:]
                h = hx(m)
                for fl in fsets:
                    cases.append("H %d %s" % (fl, h))
    dist["single_byte_corruptions_exhaustive"] = len(cases)
    # (2) single-byte deletions / duplications
    k0 = len(cases)
    for b in BASE:
        for pos in range(len(b)):
            for m in (b[:pos] + b[pos + 1:], b[:pos] + b[pos:pos + 1] + b[pos:]):
                for fl in FLAGSETS:
                    cases.append("H %d %s" % (fl, hx(m)))
    dist["deletions_duplications"] = len(cases) - k0
    # (3) structured: request line x header multisets from the pool
    k0 = len(cases)
    for _ in range(400000 if thorough else 60000):
        meth = rng.choice(METHODS[:8]) if rng.random() < 0.8 else rng.choice(METHODS)
        tgt = rng.choice(TARGETS[:4]) if rng.random() < 0.6 else rng.choice(TARGETS)
        ver = rng.choice(VERSIONS[:2]) if rng.random() < 0.85 else rng.choice(VERSIONS)
        eol = b"\r\n" if rng.random() < 0.8 else rng.choice([b"\n", b"\r\r\n", b"\r"])
        n = rng.choice([0, 1, 2, 2, 3, 3, 4, 5])
        hs = [rng.choice(HDR_POOL) for _ in range(n)]
        if rng.random() < 0.7 and not any(h.lower().startswith(b"host") for h in hs):
            hs.insert(rng.randrange(0, len(hs) + 1), b"Host: a")
        lines = [meth + b" " + tgt + b" " + ver] + hs
        blk = b""
        for l in lines:
            blk += l + (eol if rng.random() < 0.9 else rng.choice([b"\r\n", b"\n"]))
        blk += rng.choice([b"\r\n", b"\r\n", b"\r\n", b"\n"])
        cases.append("H %d %s" % (rng.choice(FLAGSETS), hx(blk)))
    dist["structured"] = len(cases) - k0
    # (4) all pairs of framing headers (exhaustive) in both orders, HTTP/1.0 and 1.1, strict and not
    k0 = len(cases)
    framing = [h for h in HDR_POOL if h.lower().startswith((b"content-length", b"transfer-encoding"))]
    for a in framing:
        for b2 in framing + [None]:
            for ver in (b"HTTP/1.1", b"HTTP/1.0"):
                for meth in (b"POST", b"GET"):
                    blk = meth + b" / " + ver + b"\r\nHost: a\r\n" + a + b"\r\n" + (b2 + b"\r\n" if b2 else b"") + b"\r\n"
                    for fl in (URLDEF | 7, URLDEF):
                        cases.append("H %d %s" % (fl, hx(blk)))
    dist["framing_header_pairs_exhaustive"] = len(cases) - k0
    ctx.cov["distribution"]["h1-head"] = dist
    return cases


def run(ctx):
    ok = ctx.prove()
    cases = []
    cp = os.path.join(vlib.VERIF, "corpus", "C01.txt")
    if os.path.exists(cp):
        cases += [l.strip() for l in open(cp) if l.strip() and not l.startswith("#")]
    cases += gen_cases(ctx)
    exe = vlib.cc_harness(ctx, "h1req_h", link_srcs=LINK, sanitize=(ctx.tier == "thorough"))
    model = vlib.model_driver("C01")
    rc_i, out_i, err_i = vlib.run_lines_sharded(exe, cases)
    rc_m, out_m, err_m = vlib.run_lines_sharded(model, cases)
    ctx.cov["evaluations"] += len(cases)
    if rc_i != 0:
        ctx.violate("h1-head-harness-crash", "h1req_h exited with %d: %s" % (rc_i, err_i[-800:]), dict(kind="crash", stderr=err_i[-3000:]))
    n = min(len(cases), len(out_i), len(out_m))
    oracle = 0
    dis = []
    for i in range(n):
        if out_m[i] == "ORACLE":
            oracle += 1
            continue
        a = out_i[i]
        if a.startswith("R ") and out_m[i].startswith("R "):
            # the property distinguishes accepted from rejected, not one 4xx/5xx from another
            if len(a.split()) == 2:
                continue
        if a != out_m[i]:
            dis.append(i)
    ctx.cov["correspondence"]["h1-head"] = dict(cases=len(cases), disagreements=len(dis), skipped_ip_literal_oracle=oracle)
    ctx.cov["distinct_nontrivial"] += len(set(c for c, o in zip(cases, out_i) if o.startswith("A ")))
    ctx.cov["rule"] = ("request heads: every single-byte corruption/deletion/duplication of 12 base requests, seeded request-line x header-pool "
                       "combinations (line endings, folding, WS, CL/TE/Host/Connection variants), all ordered pairs of framing headers; x http-parseopts "
                       "sets; non-trivial = head accepted by the implementation; distinct = distinct input lines")
    found = vlib.judge(ctx, "C01", "h1-head", cases, out_i, out_m, dis, monitor, describe, "h1req_h",
                       "H1.H1Model.h1_parse vs http_request_headers_process")
    ctx.add_samples([dict(case=describe(c), impl=o) for c, o in list(zip(cases, out_i))[:: max(1, len(cases) // 6)]])
    # the assembled connection: header reader, body readers, keep-alive reuse, under random TCP segmentation
    found = h1conn.run_system(ctx) or found
    ctx.cov["rule"] += ("; connections: pipelines of 1-4 requests (GET, Content-Length and chunked bodies incl. extensions and trailers, HTTP/1.0, unknown targets) with 0-2 single-byte "
                        "corruptions, every member of the rejected class and 29 malformed chunked bodies alone / after a keep-alive request / followed by a request that must not be answered, "
                        "bodies that look like requests, blank-line and field-size-limit boundaries; each stream sent in one piece, cut at random points and cut at the trailer-limit boundary")
    if not ok and not found:
        ctx.proof_broken_violation()


def replay(ctx, path):
    import json, shutil
    obj = json.load(open(path))
    if obj["replay"].get("kind") == "system" and "stream" in obj["replay"]:
        # replay one recorded byte stream against the running server, with the recorded segment sizes
        import srv as srvmod
        st = obj["replay"]["stream"].encode("latin-1"); sizes = obj["replay"].get("segments") or [len(st)]
        segs = []; p0 = 0
        for n in sizes: segs.append(st[p0:p0 + n]); p0 += n
        sh = ('#!/bin/sh\nprintf \'Content-Type: text/plain\\r\\n\\r\\n\'\nprintf \'M=%s CL=%s BODY=\' "$REQUEST_METHOD" "$CONTENT_LENGTH"\ncat\n').encode()
        s = srvmod.Server(ctx, "h1conn", 'cgi.assign = (".sh" => "/bin/sh")\nindex-file.names = ("index.html")\nserver.max-request-field-size = %d\n' % h1conn.MAXF,
                          files={"index.html": b"INDEX", "cgi/e.sh": sh}, modules=["mod_cgi"])
        s.start()
        try: data, closed = h1conn.talk(s.port, segs)
        finally: s.stop()
        resp = h1conn.parse_responses(data, closed)
        _, om, _ = vlib.run_lines(vlib.model_driver("C01"), ["C %d %d %s" % (h1conn.FLAGS, h1conn.MAXF, hx(st))])
        why = h1conn.monitor(st, resp, closed); dis = h1conn.compare(om[0], resp, closed)
        print("stream :", st[:600]); print("server :", [(a, b[:80]) for a, b in resp], "closed" if closed else "open"); print("model  :", om[0][:400]); print("monitor:", why); print("compare:", dis)
        shutil.rmtree(ctx.scratch, ignore_errors=True)
        return 1 if (why or dis) else 0
    case = obj["replay"].get("case")
    exe = vlib.cc_harness(ctx, "h1req_h", link_srcs=LINK)
    model = vlib.model_driver("C01")
    _, oi, _ = vlib.run_lines(exe, [case]); _, om, _ = vlib.run_lines(model, [case])
    print("input:", describe(case)); print("impl :", oi); print("model:", om); print("monitor:", monitor(case, oi[0]) if oi else None)
    shutil.rmtree(ctx.scratch, ignore_errors=True)
    return 0 if oi == om and not (oi and monitor(case, oi[0])) else 1
