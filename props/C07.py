"""C07 -- HPACK: header lists survive both directions for the whole connection.
Spec: coq/Hpack/HpackModel.v (RFC 7541 decoder + encoder family, extracted); implementation: ls-hpack + the glue in h2.c driven through
harness/h2_h.c (body mode: header blocks and bodies in hex; the /h handler dumps the request as the handler sees it)."""
import os, re
import vlib
from vlib import hx, unhx
import C06

LINK = C06.LINK
POL = ["L", "Lh", "N", "Nh", "I", "Ih", "X", "Xh", "M", "Mh"]
NAMES = [b"accept", b"accept-encoding", b"accept-language", b"user-agent", b"referer", b"if-range", b"range", b"if-none-match", b"if-modified-since", b"authorization",
         b"cache-control", b"x-custom-a", b"x-custom-b", b"x-c", b"x-forwarded-for", b"dnt", b"pragma", b"via", b"from", b"max-forwards", b"accept-charset", b"link", b"if-match"]
VALUES = [b"*/*", b"gzip, deflate", b"en-US,en;q=0.9", b"Mozilla/5.0 (X11; Linux x86_64) test", b"http://h.example/prev", b"\"etag-1\"", b"bytes=0-3", b"W/\"x\"",
          b"Sat, 01 Jan 2022 00:00:00 GMT", b"Basic dXNlcjpwYXNz", b"no-cache", b"1", b"a" * 40, b"0", b"\xc3\xa9 \xff\x80~ non-ascii", b"z" * 300, b"y"]


def fld(n, v, p):
    return "f%s.%s.%s" % (hx(n), hx(v), p)


def gen_request_conn(rng, nreq, hostile):
    """one connection: a list of blocks (kind, sid, fields, policies, resizes).  kinds: 'req' (GET /h, answered with the handler's dump), 'bad' (rejected with 400
    because of an upper-case field name -- the rest of the block is discarded but must still be decoded), 'hold' (POST /u without END_STREAM: keeps a stream
    slot busy), 'refused' (a request while 8 streams are busy: RST_STREAM(REFUSED_STREAM), block discarded but decoded), 'release' (END_STREAM for a held stream)"""
    blocks = []
    sid = 1
    held = []
    def mk(kind, method=b"GET", path=b"/h"):
        nonlocal sid
        fields = []; pols = []
        pseudo = [(b":method", method), (b":scheme", b"http"), (b":path", path), (b":authority", rng.choice([b"h.example", b"www.example.com", b"a.b:8080"]))]
        rng.shuffle(pseudo)
        for f in pseudo:
            fields.append(f); pols.append(rng.choice(POL))
        if kind == "bad":
            fields.append((b"X-Upper", b"v")); pols.append(rng.choice(["L", "I", "Lh"]))
        for n in rng.sample(NAMES, rng.randrange(0, 7)):
            v = rng.choice(VALUES)
            if n == b"range": v = b"bytes=0-3"
            fields.append((n, v)); pols.append(rng.choice(POL))
        resizes = []
        if rng.random() < 0.15:
            resizes = [rng.choice([0, 64, 100, 1000, 4096])]
            if rng.random() < 0.3: resizes.append(rng.choice([4096, 200]))
        blocks.append((kind, sid, fields, pols, resizes)); sid += 2
    if hostile and rng.random() < 0.5:
        for _ in range(8):
            mk("hold", b"POST", b"/u"); held.append(sid - 2)
        for _ in range(rng.randrange(1, 5)):
            mk("refused")
        for h in rng.sample(held, rng.randrange(1, 4)):
            blocks.append(("release", h, [], [], []))
    for _ in range(nreq):
        mk("bad" if (hostile and rng.random() < 0.25) else "req")
    return blocks


def enc_line(blocks):
    return "ENC | " + " | ".join(" ".join(["r%d" % x for x in b[4]] + [fld(n, v, p) for (n, v), p in zip(b[2], b[3])]) for b in blocks if b[0] != "release")


def norm_fields(fs):
    """HTTP semantics lighttpd applies to a decoded list: repeated fields are one comma-joined field, surrounding SP/HTAB is not part of a value,
    fields with an empty value are dropped"""
    d = {}
    for n, v in fs:
        v = v.strip(b" \t")
        if not v: continue
        if n in d and d[n] == v and n in (b"if-none-match", b"if-modified-since", b"content-type", b"http2-settings"):
            continue                               # an identical repeat of these is one field (http_request_parse_duplicate)
        if n in d and n == b"if-none-match":
            continue                               # "if dup, only the first one will survive" (a differing repeat of the other three is a 400)
        d[n] = d[n] + b", " + v if n in d else v
    return sorted(d.items())


def parse_dump(body):
    """handler dump -> (method, target, authority, scheme, [(name, value, id, want)])"""
    lines = body.decode("latin-1").split("\n")
    m = re.match(r"m=(-?\d+) t=([0-9a-f]*) a=([0-9a-f]*) s=([0-9a-f]*)$", lines[0])
    if not m: return None
    fs = []
    for l in lines[1:]:
        if not l: continue
        k = re.match(r"k=([0-9a-f]*) v=([0-9a-f]*) id=(-?\d+) want=(-?\d+)$", l)
        if not k: return None
        fs.append((bytes.fromhex(k.group(1)), bytes.fromhex(k.group(2)), int(k.group(3)), int(k.group(4))))
    return int(m.group(1)), bytes.fromhex(m.group(2)), bytes.fromhex(m.group(3)), bytes.fromhex(m.group(4)), fs


def streams_of(out_line):
    """body-mode output -> {sid: dict(hblocks=[bytes], body=bytes, rst=code)} in emission order, plus order of header blocks"""
    st = {}; order = []
    cur = None
    for tok in out_line.split():
        if tok[0] in "HCD" and "." in tok:
            t = tok[0]; sid, fl, payload = tok[1:].split(".", 2)
            sid = int(sid); fl = int(fl, 16); data = unhx(payload)
            e = st.setdefault(sid, dict(hblocks=[], body=b"", rst=None, end=False))
            if t == "H":
                e["hblocks"].append(bytearray(data)); order.append((sid, len(e["hblocks"]) - 1)); cur = sid
            elif t == "C":
                st[sid]["hblocks"][-1] += data
            else:
                e["body"] += data
            if fl & 1 and t != "C": e["end"] = True
        elif tok[0] == "R":
            sid, code = tok[1:].split("."); st.setdefault(int(sid), dict(hblocks=[], body=b"", rst=None, end=False))["rst"] = int(code)
    return st, order


def run_requests(ctx, exe, model):
    rng = ctx.rng
    thorough = ctx.tier == "thorough"
    conns = [gen_request_conn(rng, rng.randrange(1, 9), hostile=(i % 2 == 1)) for i in range(6000 if thorough else 1200)]
    # long-lived connections (many insertions and evictions)
    conns += [gen_request_conn(rng, 60, hostile=True) for _ in range(60 if thorough else 12)]
    _, enc_out, _ = vlib.run_lines_sharded(model, [enc_line(c) for c in conns])
    lines = []; metas = []
    for c, eo in zip(conns, enc_out):
        blocks = eo.split(" | ")
        if "ERR" in blocks or len(blocks) != len([b for b in c if b[0] != "release"]): continue
        acts = ["P", "SA"]
        bi = iter(blocks)
        for (kind, sid, fields, pols, rz) in c:
            if kind == "release": acts.append("D:%d:1:0" % sid)
            else: acts.append("HX:%d:%s:%s" % (sid, "4" if kind == "hold" else "5", next(bi)))
        lines.append(" ".join(acts)); metas.append((c, blocks))
    rc, out, err = vlib.run_lines_sharded(exe, lines, args=["body"])
    if rc != 0:
        ctx.violate("hpack-harness-crash", "h2_h crashed while decoding request header blocks: %s" % err[-1000:], dict(kind="crash", stderr=err[-4000:]))
    ctx.cov["evaluations"] += len(lines)
    bad = {}
    nreq = 0
    for line, (c, blocks), o in zip(lines, metas, out):
        if o == "<crash>": continue
        st, _ = streams_of(o)
        for (kind, sid, fields, pols, rz) in c:
            if kind in ("release", "hold"): continue
            nreq += 1
            e = st.get(sid)
            why = None
            if kind == "refused":
                if e and e["body"] and parse_dump(e["body"]):
                    why = "a ninth concurrent stream was processed"
            elif kind == "bad":
                if e and e["body"] and parse_dump(e["body"]):
                    why = "request with an upper-case field name was handed to the handler"
            else:
                d = parse_dump(e["body"]) if e and e["body"] else None
                if d is None:
                    why = "valid request on stream %d got no handler dump (rst=%s)" % (sid, e and e["rst"])
                else:
                    meth, tgt, auth, sch, fs = d
                    exp = dict(fields)
                    if meth != 0 or tgt != exp[b":path"]:
                        why = "pseudo-headers changed: method=%d target=%r scheme=%r" % (meth, tgt, sch)
                    want_auth = exp[b":authority"].lower()
                    if not why and auth.lower() not in (want_auth, want_auth.split(b":")[0]):
                        why = ":authority %r arrived as host %r" % (exp[b":authority"], auth)
                    got = norm_fields([(k.lower(), v) for k, v, _, _ in fs if k.lower() != b"host"])
                    expf = norm_fields([(n, v) for n, v in fields if not n.startswith(b":")])
                    if not why and got != expf:
                        why = "handler saw fields %r, client encoded %r" % (sorted(got)[:6], sorted(expf)[:6])
                    if not why:
                        for k, v, i, w in fs:
                            if i != w:
                                why = "field %r stored under header id %d, its name maps to id %d" % (k, i, w); break
            if why:
                k = re.sub(r"\d+|b'.*?'|b\".*?\"", "#", why)[:50]
                if k not in bad or len(line) < len(bad[k][0]):
                    bad[k] = (line, why, o)
    for k, (line, why, o) in list(bad.items())[:4]:
        ctx.violate("hpack-req:" + k, "C07 fails on the implementation (request direction): %s; connection: %s" % (why, line[:600]),
                    dict(kind="monitor", case=line, why=why, impl=o[:3000], harness="h2_h body", direction="request"))
    ctx.cov["correspondence"]["hpack-request"] = dict(connections=len(lines), requests=nreq, mismatch_kinds=len(bad))
    return bool(bad), nreq


RESP = {
    0: (200, [(b"content-type", b"text/plain")]), 1: (200, [(b"x-mixed-case", b"Value With UPPER"), (b"etag", b"\"abc\"")]),
    2: (200, [(b"set-cookie", b"a=1"), (b"set-cookie", b"b=2; Path=/"), (b"set-cookie", b"c=3")]), 3: (302, [(b"location", b"http://h.example/elsewhere?x=%20y")]),
    4: (200, [(b"x-big", b"Z" * 20000), (b"x-after", b"tail")]), 5: (200, [(b"cache-control", b"max-age=3600"), (b"vary", b"Accept-Encoding"), (b"x-bin", b"\x01\x7f\xff\x80 ~")]),
    6: (404, []), 7: (206, [(b"content-range", b"bytes 0-0/10")]), 8: (418, []),
}


def run_responses(ctx, exe, model):
    rng = ctx.rng
    thorough = ctx.tier == "thorough"
    lines = []; exps = []
    # value-length sweeps around every prefix boundary (126/127/128 encoded octets for 5-, 6-, 7-, 8-bit Huffman symbols and raw)
    for ch in (97, 65, 38, 126, 255, 48):      # 'a' 5 bits, 'A' 6, '&' 8, '~' 13, 0xff 26+, '0' 5
        for base in range(0, 420, 7):
            acts = ["P", "SA"]; exp = []
            sid = 1
            for L in range(base, min(base + 7, 420)):
                if L == 0: continue
                acts.append("H:%d:5:GET:/v%d.%d" % (sid, L, ch)); exp.append((sid, 200, [(b"x-v", bytes([ch]) * L)])); sid += 2
            lines.append(" ".join(acts)); exps.append(exp)
    for _ in range(3000 if thorough else 500):
        acts = ["P"] + (["SA"] if rng.random() < 0.5 else []); exp = []
        sid = 1
        for _ in range(rng.randrange(1, 9)):
            r = rng.random()
            if r < 0.2:
                acts.append("S:1=%d" % rng.choice([0, 64, 100, 4096, 1000, 65536])); continue
            k = rng.randrange(0, 9)
            if r < 0.3:
                L = rng.choice([1, 126, 127, 128, 203, 254, 255, 256, 300]); ch = rng.choice([97, 65, 38, 126])
                acts.append("H:%d:5:GET:/v%d.%d" % (sid, L, ch)); exp.append((sid, 200, [(b"x-v", bytes([ch]) * L)]))
            else:
                acts.append("H:%d:5:GET:/r%d" % (sid, k)); exp.append((sid, RESP[k][0], RESP[k][1]))
            sid += 2
        acts += ["W:0:1000000"]
        lines.append(" ".join(acts)); exps.append(exp)
    rc, out, err = vlib.run_lines_sharded(exe, lines, args=["body"])
    if rc != 0:
        ctx.violate("hpack-harness-crash", "h2_h crashed while encoding responses: %s" % err[-1000:], dict(kind="crash", stderr=err[-4000:]))
    ctx.cov["evaluations"] += len(lines)
    dec_lines = []; orders = []; sig_missing = []
    for line, o in zip(lines, out):
        st, order = streams_of(o) if o != "<crash>" else ({}, [])
        toks = []
        # the decoder's SETTINGS_HEADER_TABLE_SIZE announcements take effect in order with the blocks: approximate by position in the action list
        acts = line.split()
        sids_seen = []
        seq = []
        k = 0
        # rebuild emission order per action: the harness prints "<k>:" markers
        parts = re.split(r"(?:^| )(\d+):", o.partition(" |end ")[0]) if o != "<crash>" else []
        per_action = {}
        for i in range(1, len(parts), 2):
            per_action[int(parts[i])] = parts[i + 1]
        cur_max = 4096; pending_reduction = None
        for ai, a in enumerate(acts):
            if a.startswith("S:1="):
                v = min(int(a[4:]), 4096)                           # lighttpd never uses more than 4096 (h2.c caps the peer's value)
                toks.append("cap%d" % v)
                if v < cur_max: pending_reduction = (ai, v)
                cur_max = min(cur_max, v) if v < cur_max else cur_max
            sub, sub_order = streams_of(per_action.get(ai, ""))
            for sid, bi in sub_order:
                blk = bytes(sub[sid]["hblocks"][bi])
                if pending_reduction is not None:
                    if not (blk and 0x20 <= blk[0] < 0x40):
                        sig_missing.append((line, "client reduced SETTINGS_HEADER_TABLE_SIZE to %d (action %d); the next header block (stream %d) does not start with a "
                                                  "dynamic table size update (RFC 7541 4.2, 6.3)" % (pending_reduction[1], pending_reduction[0], sid), o))
                    pending_reduction = None
                toks.append(hx(blk)); seq.append(sid)
        dec_lines.append("DEC | " + " | ".join(toks) if toks else "DEC"); orders.append(seq)
    _, dec_out, _ = vlib.run_lines_sharded(model, dec_lines)
    bad = {}
    nresp = 0
    for line, exp, seq, do, o in zip(lines, exps, orders, dec_out, out):
        blocks = [b for b in do.split(" | ")] if do and do != "?" else []
        # drop the echo of cap tokens (the driver prints nothing for them)
        got = {}
        for sid, b in zip(seq, blocks):
            got.setdefault(sid, []).append(b)
        for sid, status, fields in exp:
            nresp += 1
            why = None
            bl = got.get(sid)
            if not bl:
                why = "no response header block for stream %d" % sid
            elif bl[0] in ("ERR", "DEAD"):
                why = "response header block of stream %d does not decode with the RFC 7541 decoder (%s)" % (sid, bl[0])
            else:
                fs = [tuple(unhx(x) for x in f.split(".")) for f in bl[0].split(",")] if bl[0] != "-" else []
                exp_l = [(b":status", b"%d" % status)] + fields
                got_l = [f for f in fs if f[0] != b"date"]
                if got_l != exp_l:
                    why = "stream %d response decodes to %r..., expected %r..." % (sid, [(n, v[:24]) for n, v in got_l][:5], [(n, v[:24]) for n, v in exp_l][:5])
                elif not any(f[0] == b"date" for f in fs):
                    why = "stream %d response has no date field" % sid
            if why:
                k = re.sub(r"\d+|b'.*?'|b\".*?\"", "#", why)[:50]
                if k not in bad or len(line) < len(bad[k][0]):
                    bad[k] = (line, why, o)
    if sig_missing:
        line, why, o = min(sig_missing, key=lambda x: len(x[0]))
        ctx.violate("hpack-resp:table-size-update-missing", "C07 fails on the implementation (response direction): %s; connection: %s" % (why, line[:300]),
                    dict(kind="monitor", case=line, why=why, impl=o[:2000], harness="h2_h body", direction="response", occurrences=len(sig_missing)))
    for k, (line, why, o) in list(bad.items())[:4]:
        ctx.violate("hpack-resp:" + k, "C07 fails on the implementation (response direction): %s; connection: %s" % (why, line[:500]),
                    dict(kind="monitor", case=line, why=why, impl=o[:3000], harness="h2_h body", direction="response"))
    ctx.cov["correspondence"]["hpack-response"] = dict(connections=len(lines), responses=nresp, mismatch_kinds=len(bad))
    return bool(bad), nresp


def run_stale_index(ctx, exe, model):
    """references to dynamic-table entries around the end of the table, right after insertions that evict: an index one past the last entry the
    encoder still has must be refused (RFC 7541 2.3.3), the last one it has must be accepted - the decoder has to evict exactly when the encoder does"""
    rng = ctx.rng
    lines = []; decs = []; meta = []
    for _ in range(400 if ctx.tier == "thorough" else 60):
        cap = rng.choice([64, 100, 128, 150, 200, 300])
        f1 = [(b":method", b"GET"), (b":scheme", b"http"), (b":path", b"/h"), (b":authority", b"h.example")]
        p1 = ["L"] * 4
        for k in range(rng.randrange(2, 7)):
            f1.append((b"x-s%d" % k, b"v" * rng.randrange(1, 45))); p1.append("I")
        f2 = [(b":method", b"GET"), (b":scheme", b"http"), (b":path", b"/h"), (b":authority", b"h.example")]
        conn = [("req", 1, f1, p1, [cap]), ("req", 3, f2, ["L"] * 4, [])]
        _, eo, _ = vlib.run_lines(model, [enc_line(conn)])
        if not eo or "ERR" in eo[0]: continue
        b1, b2 = [unhx(x) for x in eo[0].split(" | ")]
        for i in range(62, 70):
            m = b2 + bytes([0x80 | i])
            lines.append("P SA HX:1:5:%s HX:3:5:%s" % (hx(b1), hx(m))); decs.append("DEC | %s | %s" % (hx(b1), hx(m))); meta.append((cap, i))
    if not lines: return False
    rc, out, err = vlib.run_lines_sharded(exe, lines, args=["body"])
    _, dec_out, _ = vlib.run_lines_sharded(model, decs)
    ctx.cov["evaluations"] += len(lines)
    bad = None; acc = 0; rej = 0
    for line, o, do, (cap, i) in zip(lines, out, dec_out, meta):
        if o == "<crash>": continue
        st, _ = streams_of(o)
        e = st.get(3)
        served = bool(e and e["body"] and parse_dump(e["body"]) is not None)
        spec_ok = do.split(" | ")[-1] not in ("ERR", "DEAD", "?", "")
        acc += served; rej += (not served)
        if served != spec_ok and bad is None:
            bad = (line, "a header block referring to dynamic-table index %d (table capacity %d) is %s by the implementation and %s by the RFC 7541 decoder: the two tables "
                         "no longer hold the same entries" % (i, cap, "accepted" if served else "refused", "accepted" if spec_ok else "refused"), o)
    if bad:
        ctx.violate("hpack-stale-index", "C07 fails on the implementation: %s; connection: %s" % (bad[1], bad[0][:500]), dict(kind="monitor", case=bad[0], why=bad[1], impl=bad[2][:3000], harness="h2_h body", direction="corrupt"))
    ctx.cov["correspondence"]["hpack-table-end"] = dict(blocks=len(lines), accepted=acc, refused=rej, disagreements=int(bool(bad)))
    return bool(bad)


def run_corruptions(ctx, exe, model):
    """every single-byte corruption of valid blocks: the implementation either refuses the block (RST/GOAWAY/4xx) or hands the handler exactly what the
    spec decoder reads -- never a silently different list"""
    rng = ctx.rng
    thorough = ctx.tier == "thorough"
    base_conns = [gen_request_conn(rng, 1, False) for _ in range(50 if thorough else 12)]
    _, enc_out, _ = vlib.run_lines_sharded(model, [enc_line(c) for c in base_conns])
    lines = []; blocks = []
    for c, eo in zip(base_conns, enc_out):
        b = unhx(eo.split(" | ")[0]) if eo and "ERR" not in eo else None
        if not b: continue
        for pos in range(len(b)):
            for val in ([b[pos] ^ (1 << k) for k in range(8)] + ([rng.randrange(256)] if thorough else [])):
                m = b[:pos] + bytes([val]) + b[pos + 1:]
                lines.append("P SA HX:1:5:%s" % hx(m)); blocks.append(m)
        for cutlen in range(len(b)):
            lines.append("P SA HX:1:5:%s" % hx(b[:cutlen])); blocks.append(b[:cutlen])
    rc, out, err = vlib.run_lines_sharded(exe, lines, args=["body"])
    if rc != 0:
        ctx.violate("hpack-harness-crash", "h2_h crashed on a corrupted header block: %s" % err[-1000:], dict(kind="crash", stderr=err[-4000:]))
    _, dec_out, _ = vlib.run_lines_sharded(model, ["DEC | " + hx(b) for b in blocks])
    ctx.cov["evaluations"] += len(lines)
    bad = {}
    accepted = 0
    trunc = []
    for line, o, do in zip(lines, out, dec_out):
        if o == "<crash>": continue
        st, _ = streams_of(o)
        e = st.get(1)
        d = parse_dump(e["body"]) if e and e["body"] else None
        if d is None: continue            # refused: fine
        accepted += 1
        meth, tgt, auth, sch, fs = d
        why = None
        if do in ("ERR", "DEAD", "?", ""):
            why = "a block the RFC 7541 decoder rejects was accepted and handed to the handler"
            trunc.append((line, o))
        else:
            spec = [tuple(unhx(x) for x in f.split(".")) for f in do.split(",")] if do != "-" else []
            sp = dict((n, v) for n, v in spec if n.startswith(b":"))
            got = norm_fields([(k.lower(), v) for k, v, _, _ in fs if k.lower() != b"host"])
            # a corrupted block can decode to a field name that is no token (trailing SP / CR); with header-strict off - the harness's request
            # options - request.c drops such trailing bytes from the name (HTTP semantics, not HPACK): compare modulo that
            expf = norm_fields([(n.rstrip(b" \t\r"), v) for n, v in spec if not n.startswith(b":")])
            got = norm_fields([(k.rstrip(b" \t\r"), v) for k, v in got])
            if got != expf or tgt != sp.get(b":path", b""):
                why = "handler saw %r target %r, the spec decoder reads %r target %r" % (got[:5], tgt, expf[:5], sp.get(b":path"))
        if why:
            k = re.sub(r"\d+|b'.*?'|b\".*?\"", "#", why)[:50]
            if k not in bad or len(line) < len(bad[k][0]):
                bad[k] = (line, why, o)
    # classify acceptances of blocks the strict decoder rejects: the two known ls-hpack leniencies, or something else
    if trunc:
        _, dec2, _ = vlib.run_lines_sharded(model, ["DEC | " + l.split(":")[-1] + "00" for l, _ in trunc])     # value string missing at the very end
        _, dec3, _ = vlib.run_lines_sharded(model, ["DECL | " + l.split(":")[-1] for l, _ in trunc])           # table size update between fields
        _, dec4, _ = vlib.run_lines_sharded(model, ["DECL | " + l.split(":")[-1] + "00" for l, _ in trunc])    # both at once
        isok = lambda d: d not in ("ERR", "DEAD", "?", "")
        kA = [(l, o) for (l, o), d2, d3, d4 in zip(trunc, dec2, dec3, dec4) if isok(d2)]
        kB = [(l, o) for (l, o), d2, d3, d4 in zip(trunc, dec2, dec3, dec4) if not isok(d2) and (isok(d3) or isok(d4))]
        others = [(l, o) for (l, o), d2, d3, d4 in zip(trunc, dec2, dec3, dec4) if not isok(d2) and not isok(d3) and not isok(d4)]
        if kA:
            l0, o0 = min(kA, key=lambda x: len(x[0]))
            ctx.violate("hpack-corrupt:truncated-value-accepted", "C07 fails on the implementation (corrupted block): a header block that ends right after a field name "
                        "(value string missing) is accepted instead of COMPRESSION_ERROR and the field is dropped; connection: %s" % l0[:400],
                        dict(kind="monitor", case=l0, impl=o0[:2000], harness="h2_h body", direction="corrupt", occurrences=len(kA)))
        if kB:
            l0, o0 = min(kB, key=lambda x: len(x[0]))
            ctx.violate("hpack-corrupt:size-update-mid-block-accepted", "C07 fails on the implementation (corrupted block): a dynamic table size update between two fields of a "
                        "block (RFC 7541 4.2: only at the beginning) is accepted instead of COMPRESSION_ERROR; connection: %s" % l0[:400],
                        dict(kind="monitor", case=l0, impl=o0[:2000], harness="h2_h body", direction="corrupt", occurrences=len(kB)))
        for kk in list(bad):
            if kk.startswith("a block the RFC"):
                if others: bad[kk] = (others[0][0], bad[kk][1], others[0][1])
                else: del bad[kk]
    for k, (line, why, o) in list(bad.items())[:3]:
        ctx.violate("hpack-corrupt:" + k, "C07 fails on the implementation (corrupted block): %s; connection: %s" % (why, line[:500]),
                    dict(kind="monitor", case=line, why=why, impl=o[:3000], harness="h2_h body", direction="corrupt"))
    ctx.cov["correspondence"]["hpack-corruptions"] = dict(blocks=len(lines), accepted_by_impl=accepted, mismatch_kinds=len(bad))
    return bool(bad)


def run(ctx):
    ok = ctx.prove()
    exe = vlib.cc_harness(ctx, "h2_h", link_srcs=LINK, sanitize=(ctx.tier == "thorough"))
    model = vlib.model_driver("C07")
    f1, nreq = run_requests(ctx, exe, model)
    f2, nresp = run_responses(ctx, exe, model)
    f3 = run_corruptions(ctx, exe, model)
    f3 = run_stale_index(ctx, exe, model) or f3
    ctx.cov["distinct_nontrivial"] += nreq + nresp
    ctx.cov["rule"] = ("request direction: header lists encoded by the extracted Gallina encoder under 10 representation policies (indexed / incremental / literal / never-indexed, "
                       "name index, Huffman) with table-size updates, 1-60 requests per connection mixed with discarded blocks (trailers on finished streams, requests rejected "
                       "mid-block); response direction: h2.c's blocks decoded by the extracted RFC 7541 decoder, value lengths 1..419 for 6 symbol widths, repeated fields, "
                       "CONTINUATION, client table-size changes; all single-bit corruptions and truncations of valid blocks; non-trivial = requests/responses compared")
    ctx.add_samples([dict(note="see coverage.correspondence for counts")])
    if not ok and not (f1 or f2 or f3):
        ctx.proof_broken_violation()


def replay(ctx, path):
    import json, shutil
    obj = json.load(open(path))
    case = obj["replay"].get("case")
    exe = vlib.cc_harness(ctx, "h2_h", link_srcs=LINK)
    _, oi, _ = vlib.run_lines(exe, [case], args=["body"])
    print("input:", case[:1000]); print("impl :", oi[0][:2000] if oi else None); print("recorded reason:", obj["replay"].get("why"))
    rc = 1
    hx_toks = [t for t in case.split() if t.startswith("HX:")]
    if hx_toks and len(hx_toks) == len([t for t in case.split() if t[:1] in "HD" and ":" in t]) and oi:
        # raw header blocks: decide again - is each block served exactly when the RFC 7541 decoder (same connection-long table) accepts it?
        model = vlib.model_driver("C07")
        _, do, _ = vlib.run_lines(model, ["DEC | " + " | ".join(t.split(":")[3] for t in hx_toks)])
        verdicts = do[0].split(" | ") if do else []
        st, _ = streams_of(oi[0])
        rc = 0
        for t, d in zip(hx_toks, verdicts):
            sid = int(t.split(":")[1]); e = st.get(sid)
            served = bool(e and e["body"] and parse_dump(e["body"]) is not None)
            spec_ok = d not in ("ERR", "DEAD", "?", "")
            print("stream %d: served=%s, RFC 7541 decoder accepts=%s" % (sid, served, spec_ok))
            if served and not spec_ok: rc = 1
            if obj.get("key", "").startswith("hpack-stale-index") and served != spec_ok: rc = 1
    shutil.rmtree(ctx.scratch, ignore_errors=True)
    return rc
