"""C19 -- compressed responses decode to the identity body; the compression cache never serves stale content.
Model: coq/Deflate/*.v ; implementation: the real lighttpd of the working tree with mod_deflate (zlib), deflate.cache-dir,
driven through histories that modify source files, inject short writes / ENOSPC on cache files and kill the server.
Monitor (from the property text): every body decodes -- with the declared Content-Encoding, which the client listed -- to the file
as it is on disk now; coded responses carry Vary: Accept-Encoding and an ETag distinct from the identity one; revalidation with it gives 304."""
import gzip, json, os, re, signal, sys, time, zlib
import vlib, srv
from vlib import hx
sys.path.insert(0, os.path.join(vlib.VERIF, "props"))
import C04 as H1

CONF = r'''
server.stat-cache-engine = "disable"
deflate.mimetypes = ("text/", "application/json")
deflate.allowed-encodings = (%s)
deflate.min-compress-size = %d
deflate.max-compress-size = %d
%s
mimetype.assign = (".txt" => "text/plain", ".json" => "application/json", ".bin" => "application/octet-stream", ".html" => "text/html; charset=utf-8")
'''
VARIANTS = [dict(name="default-cache", allowed='"gzip", "deflate"', masks="3,4", mn=256, mx=0, cache=True),
            dict(name="deflate-first-nocache", allowed='"deflate", "gzip"', masks="4,3", mn=0, mx=1024, cache=False),
            dict(name="gzip-only-cache", allowed='"gzip"', masks="3", mn=1000, mx=4096, cache=True),
            # another module has already set a Vary header when mod_deflate runs: Accept-Encoding must be added to it
            dict(name="vary-present", allowed='"gzip", "deflate"', masks="3,4", mn=256, mx=0, cache=False, vary=True)]
AE = [None, b"gzip", b"deflate", b"gzip, deflate", b"deflate, gzip", b"x-gzip", b"br, zstd", b"identity", b"*", b"gzip;q=1.0, deflate;q=0.5", b"deflate;q=1,gzip",
      b" gzip ,,deflate", b"GZIP", b"gzipx", b"compress, gzip", b"br;q=1.0, gzip;q=0.8, *;q=0.1", b"", b"x-gzip, deflate", b"gzip ; q=0"]
PAT = H1.pattern(2300000)


def content(kind, n, ver):
    if kind == "text": base = (b"line %d of version %d: the quick brown fox jumps over the lazy dog\n" % (7, ver)) * (n // 60 + 1)
    elif kind == "zeros": base = b"\0" * n
    else: base = PAT[ver * 13 % 1000:]
    return base[:n]


FILES = [("/t/small.txt", "text", 100), ("/t/a.txt", "text", 5000), ("/t/b.html", "text", 40000), ("/t/c.json", "text", 70000), ("/t/rand.txt", "rand", 50000),
         ("/t/z.txt", "zeros", 300000), ("/t/big.txt", "text", 2097152 + 4321), ("/t/exact2m.txt", "text", 2097152), ("/t/x.bin", "text", 20000), ("/t/edge.txt", "text", 257),
         ("/t/k32.txt", "text", 32768), ("/t/k32p.txt", "rand", 32769), ("/t/bigrand.txt", "rand", 3000000)]


def decode(enc, body):
    if enc in (b"gzip", b"x-gzip"): return gzip.decompress(body)
    if enc == b"deflate":
        try: return zlib.decompress(body)
        except zlib.error: return zlib.decompress(body, -15)
    raise ValueError("unknown coding %r" % enc)


def ae_tokens_listed(ae):
    return [t.split(b";")[0].strip() for t in ae.split(b",")] if ae is not None else []


def judge(req, st, h, body, disk, v):
    """req: (path, ae, inm, method); disk: bytes of the file now"""
    path, ae, inm, method = req
    ce = h.get(b"content-encoding")
    if st == 304:
        return None
    if st != 200: return "status %d" % st
    if ce:
        ce = ce[0]
        if ce not in ae_tokens_listed(ae): return "Content-Encoding %r is not among the codings the client listed (%r)" % (ce, ae)
        if ce.replace(b"x-", b"") not in v["allowed"].encode(): return "Content-Encoding %r is not allowed by the configuration (%s)" % (ce, v["allowed"])
        if method == b"GET":
            try: ident = decode(ce, body)
            except Exception as e: return "body does not decode with the declared Content-Encoding %r: %s (%d bytes)" % (ce, e, len(body))
            if ident != disk:
                k = next((j for j in range(min(len(ident), len(disk))) if ident[j] != disk[j]), min(len(ident), len(disk)))
                return "decoded body differs from the file on disk now (%d bytes decoded, file has %d, first difference at %d)" % (len(ident), len(disk), k)
        vary = b",".join(h.get(b"vary", [])).lower()
        if b"accept-encoding" not in vary: return "coded response without Vary: Accept-Encoding"
    else:
        if method == b"GET" and body != disk:
            return "identity body differs from the file on disk now (%d bytes, file has %d)" % (len(body), len(disk))
    return None


def model_line(v, req, st, h, disk_len, ctype, base_etag):
    path, ae, inm, method = req
    mt = ",".join(hx(x) for x in (b"text/", b"application/json"))
    return "D %s %s %d %d 200 %d %d %s %s %s %s %d" % (v["masks"], mt, v["mn"], v["mx"], method == b"HEAD", disk_len, hx(ctype) if ctype else "~", hx(base_etag) if base_etag else "~",
                                                      "~" if ae is None else hx(ae), "~" if inm is None else hx(inm), method in (b"GET", b"HEAD"))


MIME = {".txt": b"text/plain", ".json": b"application/json", ".bin": b"application/octet-stream", ".html": b"text/html; charset=utf-8"}


def run_variant(ctx, v, nops, model, sanitize=False):
    rng = ctx.rng.__class__(ctx.rng.random())
    files = {p: content(k, n, 0) for p, k, n in FILES}
    s = srv.Server(ctx, v["name"], 'setenv.add-response-header = ("Vary" => "Origin")\n' if v.get("vary") else "", files=files,
                   modules=(["mod_setenv"] if v.get("vary") else []) + ["mod_deflate"], sanitize=sanitize)
    cache_dir = os.path.join(s.root, "zcache"); os.makedirs(cache_dir, exist_ok=True)
    with open(s.conf, "a") as f:
        f.write(CONF % (v["allowed"], v["mn"], v["mx"], ('deflate.cache-dir = "%s"' % cache_dir) if v["cache"] else ""))
    so = os.path.join(ctx.scratch, "faultio.so")
    with vlib.Lock("faultio"):
        if not os.path.exists(so):
            rc, out = vlib.sh(["cc", "-shared", "-fPIC", "-O1", "-o", so, os.path.join(vlib.VERIF, "harness", "faultio.c"), "-ldl"], timeout=120)
            if rc != 0: raise vlib.BuildError("faultio.so: " + out[-2000:])
    extra = dict(LD_PRELOAD=so, FAULTIO_RATE="0", FAULTIO_SEED=str(ctx.seed), FAULTIO_FILE_SUBSTR="zcache", FAULTIO_FILE_RATE="20" if v["cache"] else "0")
    s.start(extra)
    faults_on = v["cache"]
    ver = {p: 0 for p, _, _ in FILES}
    log = []; viol = None; mlines = []; mexp = []; kills = 0; follow = None; refused_run = 0; coded = 0; nreq = 0; hits304 = 0
    etags = {}
    try:
        for i in range(nops):
            x = rng.random()
            if x < 0.12:
                p, k, n = rng.choice(FILES)
                ver[p] += 1
                n2 = n if rng.random() < 0.5 else max(1, n + rng.choice([-1, 1, 100, -100]))
                data = content(k, n2, ver[p])
                fp = os.path.join(s.docroot, p.lstrip("/"))
                # replace by rename (new inode, new mtime): the entity tag changes
                with open(fp + ".new", "wb") as f: f.write(data)
                os.utime(fp + ".new", (time.time() + ver[p], time.time() + ver[p]))
                os.replace(fp + ".new", fp)
                files[p] = data; log.append(("modify", p, len(data))); continue
            if x < 0.16 and v["cache"] and kills < 3:
                # kill while a large compression may be in flight, restart with the same cache directory
                kills += 1
                kp = rng.choice(["/t/big.txt", "/t/bigrand.txt", "/t/bigrand.txt"])       # incompressible: the cache file grows while the compression runs
                c = s.connect(); c.sendall(b"GET " + kp.encode() + b" HTTP/1.1\r\nHost: h\r\nAccept-Encoding: gzip\r\nConnection: close\r\n\r\n")
                time.sleep(rng.choice([0.0, 0.002, 0.01, 0.03, 0.06]))
                s.proc.send_signal(signal.SIGKILL); s.proc.wait(); c.close(); s.proc = None
                left = [f for r_, _, fs in os.walk(cache_dir) for f in fs]
                # every other restart runs without injected write faults: there a refusal can only come from what the kill left behind
                faults_on = (kills % 2 == 0)
                s.start(extra if faults_on else dict(extra, FAULTIO_FILE_RATE="0")); log.append(("kill", None, left))
                follow = (kp, b"gzip"); refused_run = 0; continue           # what does the cache hold for the very request that was cut?
            p, k, n = rng.choice(FILES)
            ae = rng.choice(AE); method = rng.choice([b"GET", b"GET", b"GET", b"HEAD"])
            if follow:
                p, ae = follow; method = b"GET"; follow = None
                n = [nn for pp, kk, nn in FILES if pp == p][0]
            inm = None
            if etags.get((p, ae)) and rng.random() < 0.3: inm = etags[(p, ae)]
            req = (p.encode(), ae, inm, method)
            raw = method + b" " + p.encode() + b" HTTP/1.1\r\nHost: h\r\nConnection: close\r\n"
            if ae is not None: raw += b"Accept-Encoding: " + ae + b"\r\n"
            if inm: raw += b"If-None-Match: " + inm + b"\r\n"
            data = s.roundtrip(raw + b"\r\n", timeout=20.0)
            nreq += 1
            if data == b"" or data.startswith(b"HTTP/1.1 500"):
                # a failed cache write makes mod_deflate fail the request (nothing, or a 500, is sent): refused, not stale or partial content
                log.append(("refused", p, len(data)))
                if not faults_on:
                    viol = ("the request was refused (no response / 500) although no write fault is being injected: what the interrupted compression left in the cache "
                            "makes the resource unavailable", req, i); break
                if v["cache"] and ae is not None: follow = (p, ae)      # a failed cache write must not leave something that is served (or blocks) next time
                continue
            refused_run = 0
            try: rs = H1.parse_stream(data, [method], True)
            except H1.Bad as e:
                viol = ("malformed response: %s" % e, req, i); break
            if not rs: viol = ("no response", req, i); break
            st, h, body, frame, keep = rs[0]
            why = judge(req, st, h, body, files[p], v)
            if why: viol = (why, req, i); break
            et = h.get(b"etag", [None])[0]
            if st == 200 and et: etags[(p, ae)] = et
            if st == 304: hits304 += 1
            if inm and st == 200 and et == inm and method == b"GET":
                viol = ("revalidation with the current entity tag %r did not yield 304" % inm, req, i); break
            if b"content-encoding" in h:
                coded += 1
                if et and re.fullmatch(rb'"[^"-]*"', et): viol = ("coded response carries an identity-looking ETag %r" % et, req, i); break
            # model: base etag = tag without the coding suffix
            if st in (200, 304) and et and not (st == 304 and not re.search(rb'-(gzip|x-gzip|deflate)"$', et)):
                # (a 304 carrying the identity tag comes from the core's If-None-Match handling before mod_deflate runs: outside this model)
                base = re.sub(rb'-(gzip|x-gzip|deflate)"$', b'"', et)
                ext = os.path.splitext(p)[1]
                mlines.append(model_line(v, req, st, h, len(files[p]), MIME.get(ext), base))
                obs = ("N " + hx(et)) if st == 304 else (("E " + hx(h[b"content-encoding"][0]) + " " + hx(et)) if b"content-encoding" in h else "U")
                mexp.append((obs, req))
            log.append(("req", p, st))
    finally:
        alive = s.alive(); rc = s.stop()
    crashed = (not alive and viol is None) or rc in (98, 99)
    leftovers = [f for r_, _, fs in os.walk(cache_dir) for f in fs if re.search(r"\.\d+$", f)] if v["cache"] else []
    return dict(viol=viol, mlines=mlines, mexp=mexp, crashed=crashed, log=s.log()[-1500:], coded=coded, nreq=nreq, n304=hits304, kills=kills, tmp_left=leftovers, history=log[-40:])


def run(ctx):
    ok = ctx.prove()
    model = vlib.model_driver("C19")
    nops = 600 if ctx.tier == "quick" else 6000
    srv.build_server(False)
    found = False; total = 0; coded = 0
    from concurrent.futures import ThreadPoolExecutor
    with ThreadPoolExecutor(max_workers=3) as ex:
        outs = list(ex.map(lambda v: run_variant(ctx, v, nops, model), VARIANTS))
    for v, o in zip(VARIANTS, outs):
        total += o["nreq"]; coded += o["coded"]
        if o["crashed"]:
            ctx.violate("c19-server-crash", "lighttpd (%s) died: %s" % (v["name"], o["log"][-500:]), dict(kind="crash", variant=v["name"], log=o["log"], history=o["history"])); found = True
        if o["viol"]:
            why, req, i = o["viol"]
            ctx.violate("c19:" + re.sub(r"b'[^']*'|b\"[^\"]*\"|\d+", "#", why)[:70], "C19 fails on the implementation (%s, request %r Accept-Encoding %r after %d operations): %s"
                        % (v["name"], req[0], req[1], i, why), dict(kind="monitor", variant=v["name"], request=[x.decode("latin-1") if isinstance(x, bytes) else x for x in req], why=why, history=o["history"], seed=ctx.seed))
            found = True
        _, mo, _ = vlib.run_lines(model, o["mlines"]) if o["mlines"] else (0, [], "")
        dis = [(m, e) for m, (e, rq) in zip(mo, o["mexp"]) if m != e]
        ctx.cov["correspondence"]["deflate-" + v["name"]] = dict(requests=o["nreq"], compared=len(o["mexp"]), disagreements=len(dis), coded=o["coded"], revalidated_304=o["n304"], kills=o["kills"])
        if dis and not found:
            m, e = dis[0]
            ctx.violate("c19-correspondence", "mod_deflate's plan differs from Deflate.DeflateModel.decide (%s): observed %s, model %s; every body decoded to the file on disk" % (v["name"], e[:120], m[:120]),
                        dict(kind="correspondence", correspondence="Deflate.DeflateModel.decide vs mod_deflate_handle_response_start", variant=v["name"], observed=e, model=m), no_input=True)
            found = True
    ctx.cov["evaluations"] += total; ctx.cov["distinct_nontrivial"] += coded
    ctx.cov["rule"] = ("4 configurations (allowed-encodings order, min/max sizes, cache directory on/off, a Vary header already set by mod_setenv) x 12 files (100 B .. 2 MiB+4321 B, text / incompressible / zeros, sizes around "
                       "32 KiB, min-compress-size and the 2 MiB read block) x 19 Accept-Encoding values (q-values, x-gzip, unknown codings, odd spacing, upper case) x GET/HEAD x "
                       "If-None-Match with the coded tag, in histories that replace source files (new content, sometimes new size), with 20 % short writes / ENOSPC on cache "
                       "files and SIGKILL during a 2 MiB compression followed by restart on the same cache directory; non-trivial = coded responses decoded and compared")
    if not ok and not found:
        ctx.proof_broken_violation()


def replay(ctx, path):
    import shutil
    obj = json.load(open(path)); rp = obj["replay"]
    v = [x for x in VARIANTS if x["name"] == rp.get("variant", VARIANTS[0]["name"])][0]
    model = vlib.model_driver("C19")
    ctx.rng.seed(obj.get("seed", 1))
    o = run_variant(ctx, v, 300, model)
    print("monitor:", o["viol"], "crashed:", o["crashed"])
    shutil.rmtree(ctx.scratch, ignore_errors=True)
    return 1 if (o["viol"] or o["crashed"]) else 0
