"""C15 -- Range / conditional GET / dates.   Model: coq/C15/*.v ; harness: harness/range_h.c, harness/cond_h.c"""
import itertools, re
import vlib
from vlib import hx, unhx

LINK = vlib.COMMON_SRC


# ------------------------------------------------------------------ independent RFC 9110 sec.14 reference (search oracle)
def rfc_specs(value, length):
    """Grammar-level reading of a Range value (after 'bytes=').  Returns list of satisfiable
    (first,last) in order, or None when some element is not a grammatical byte-range-spec
    (then the monitor's coverage clause does not apply)."""
    out = []
    for el in value.split(","):
        el = el.strip(" \t")
        if el == "":
            continue
        m = re.fullmatch(r"(\d+)[ \t]*-[ \t]*(\d*)", el)
        if m:
            a = int(m.group(1)); b = int(m.group(2)) if m.group(2) != "" else None
            if a >= 2**63 - 1 or (b is not None and b >= 2**63 - 1):
                return None  # beyond what an off_t can say; implementation-defined
            if b is not None and b < a:
                return None
            if a < length:
                out.append((a, min(b, length - 1) if b is not None else length - 1))
            continue
        m = re.fullmatch(r"-(\d+)", el)
        if m:
            s = int(m.group(1))
            if s >= 2**63 - 1:
                return None
            if s > 0:
                out.append((max(0, length - s), length - 1))
            continue
        return None
    return out


def parse_206(status, cr, ctype, body, boundary=None):
    """Client-side parse of a 206 into [(a,b,payload)], or a string describing why it is malformed."""
    if cr is not None:
        m = re.fullmatch(rb"bytes (\d+)-(\d+)/(\d+)", cr)
        if not m:
            return "bad Content-Range %r" % cr
        return [(int(m.group(1)), int(m.group(2)), body)], int(m.group(3))
    m = re.fullmatch(rb"multipart/byteranges; boundary=(\S+)", ctype or b"")
    if not m:
        return "206 with neither Content-Range nor multipart type"
    bd = m.group(1)
    parts = []
    total = None
    rest = body
    delim = b"--" + bd
    if not rest.startswith(delim):
        return "multipart body does not start with boundary"
    rest = rest[len(delim):]
    while True:
        if rest.startswith(b"--\r\n"):
            if rest != b"--\r\n":
                return "bytes after closing boundary"
            break
        if not rest.startswith(b"\r\n"):
            return "boundary not followed by CRLF"
        rest = rest[2:]
        he = rest.find(b"\r\n\r\n")
        if he < 0:
            return "part header not terminated"
        hdrs = rest[:he].split(b"\r\n")
        rest = rest[he + 4:]
        crv = [h for h in hdrs if h.lower().startswith(b"content-range:")]
        if len(crv) != 1:
            return "part without exactly one Content-Range"
        m2 = re.fullmatch(rb"bytes (\d+)-(\d+)/(\d+)", crv[0].split(b":", 1)[1].strip())
        if not m2:
            return "bad part Content-Range"
        a, b, t = int(m2.group(1)), int(m2.group(2)), int(m2.group(3))
        total = t
        n = b - a + 1
        if n < 0 or len(rest) < n + 2 + len(delim):
            return "part payload truncated"
        payload = rest[:n]
        rest = rest[n:]
        if not rest.startswith(b"\r\n" + delim):
            return "part payload not followed by boundary"
        rest = rest[2 + len(delim):]
        parts.append((a, b, payload))
    return parts, total


def monitor(case, impl_line):
    try:
        return monitor_(case, impl_line)
    except Exception as e:
        return "harness output malformed (%s): %r" % (type(e).__name__, impl_line[:200])


def monitor_(case, impl_line):
    """None when the observed answer satisfies the property's clauses for this input, else which clause fails."""
    if case.startswith("M "): return monitor_etag(case, impl_line)
    if case.startswith("E "): return monitor_cond(case, impl_line)
    t = case.split()
    if t[0] == "D":
        return monitor_date(case, impl_line)
    if t[0] != "R":
        return None
    fl, st_in, meth, ar, rg, ifr, et, lm, ct, content = t[1:11]
    content = unhx(content)
    o = impl_line.split()
    if len(o) < 5:
        return "harness output malformed: %r" % impl_line
    if "LENERR" in impl_line:
        return "queue length accounting differs from bytes present: " + o[-1]
    st = int(o[0]); cr = None if o[1] == "~" else unhx(o[1]); cty = None if o[2] == "~" else unhx(o[2])
    clen = None if o[3] == "~" else unhx(o[3]); body = unhx(o[4])
    L = len(content)
    rgv = None if rg == "~" else unhx(rg)
    applicable = (fl[0] == "1" and st_in == "200" and meth == "0" and (fl[1] == "1" or fl[2] == "1") and fl[3] == "0"
                  and rgv is not None and rgv[:6].lower() == b"bytes=" and L > 0
                  and not (ar != "~" and unhx(ar) == b"none"))
    if ifr != "~":
        v = unhx(ifr)
        cmpv = et if v[:1] == b'"' else lm
        if cmpv == "~" or unhx(cmpv) != v:
            applicable = False
    if not applicable:
        if st != int(st_in) or body != content:
            return "Range must be ignored here (unit/method/version/If-Range/encoding) but answer is %d with %d body bytes" % (st, len(body))
        return None
    specs = rfc_specs(rgv[6:].decode("latin-1"), L)
    if st == 206:
        p = parse_206(st, cr, cty, body)
        if isinstance(p, str):
            return p
        parts, total = p
        if total != L:
            return "complete-length %s in Content-Range is not the representation length %d" % (total, L)
        if clen is None or int(clen) != len(body):
            return "Content-Length %r does not match %d body bytes" % (clen, len(body))
        for (a, b, pl) in parts:
            if not (0 <= a <= b < L) or pl != content[a:b + 1]:
                return "part %d-%d does not carry the representation's bytes at those positions" % (a, b)
        if specs is not None:
            lim = 128
            for (a, b) in specs[:lim]:
                if not any(pa <= a and b <= pb for (pa, pb, _) in parts):
                    # the documented exception: unsorted sets are cut at RMAX_UNSORTED
                    if len(specs) <= 10:
                        return "satisfiable range %d-%d is in no part" % (a, b)
            if not specs:
                return "206 although no requested range is satisfiable"
    elif st == 416:
        if specs:
            return "416 although range %d-%d is satisfiable" % specs[0]
        if cr is None or cr != b"bytes */%d" % L:
            return "416 without Content-Range: bytes */%d" % L
    elif st == 200:
        if specs:
            return "200 full body although Range %r is applicable and satisfiable" % rgv
    else:
        return "unexpected status %d" % st
    return None


# ------------------------------------------------------------------ generators
def boundary_numbers(L):
    return sorted(set([0, 1, max(L - 2, 0), L - 1, L, L + 1, 2**63 - 2, 2**63 - 1, 2**63, 10**20]))


def specs_for(L, nums):
    s = []
    for a in nums:
        s.append("%d-" % a)
        s.append("-%d" % a)
        for b in nums:
            s.append("%d-%d" % (a, b))
    return s


def mk_case(rng_value, content, layout="m", flags="1100", status=200, meth=0, ar=None, ifr=None, et=None, lm=None, ct=b"text/plain"):
    o = lambda v: "~" if v is None else hx(v)
    return "R %s %d %d %s %s %s %s %s %s %s %s" % (flags, status, meth, o(ar), o(rng_value), o(ifr), o(et), o(lm), o(ct), hx(content), layout)


WD = ["Mon", "Tue", "Wed", "Thu", "Fri", "Sat", "Sun"]; WDL = ["Monday", "Tuesday", "Wednesday", "Thursday", "Friday", "Saturday", "Sunday"]
MON = ["Jan", "Feb", "Mar", "Apr", "May", "Jun", "Jul", "Aug", "Sep", "Oct", "Nov", "Dec"]


def date_spellings(t):
    import datetime
    d = datetime.datetime.fromtimestamp(t, datetime.timezone.utc)
    return [("imf", "%s, %02d %s %04d %02d:%02d:%02d GMT" % (WD[d.weekday()], d.day, MON[d.month - 1], d.year, d.hour, d.minute, d.second)),
            ("rfc850", "%s, %02d-%s-%02d %02d:%02d:%02d GMT" % (WDL[d.weekday()], d.day, MON[d.month - 1], d.year % 100, d.hour, d.minute, d.second)),
            ("asctime", "%s %s %2d %02d:%02d:%02d %04d" % (WD[d.weekday()], MON[d.month - 1], d.day, d.hour, d.minute, d.second, d.year))]


def date_cases(ctx):
    """D <lmtime> <hex If-Modified-Since>: every spelling of instants around day/month/year/leap boundaries, lmtime = t-1, t, t+1; junk dates"""
    rng = ctx.rng; out = []
    ts = [0, 1, 86399, 86400, 951782400 - 1, 951782400, 951868800, 1000000000, 1078099200, 1709164800, 1709251199, 1709251200, 1735689599, 1735689600,
          2147483647, 2147483648, 4102444800 - 1, 4102444800, 126230400, 3281904000 - 1]
    ts += [rng.randrange(0, 5184000000) for _ in range(60 if ctx.tier == "quick" else 3000)]
    for t in ts:
        for kind, txt in date_spellings(t):
            if kind == "rfc850" and not (126230400 <= t < 3281904000): continue       # two-digit year window of the pivot year 2023
            for lm in (t - 1, t, t + 1):
                out.append("D %d %s" % (lm, hx(txt.encode())))
    for junk in [b"", b"yesterday", b"Sun, 09 Sep 2001 01:46:40 UTC", b"Sun, 09 Sep 2001 01:46:40 GMT ", b"Sun, 9 Sep 2001 01:46:40 GMT", b"Xxx, 09 Sep 2001 01:46:40 GMT",
                 b"Sun, 09 Xxx 2001 01:46:40 GMT", b"Sun Sep  9 01:46:40 200", b"Sunday, 09-Sep-01 01:46:40", b"Sun, 09 Sep 2001 01-46-40 GMT", b"Sun, 99 Sep 2001 99:99:99 GMT",
                 b"Sun, 00 Jan 1970 00:00:00 GMT", b"Wed, 31 Dec 1969 23:59:59 GMT", b"Sun Sep 09 01:46:40 2001", b"Sunday, 09-Sep-01 01:46:40 GMT junk"]:
        for lm in (0, 1000000000, 1000000001):
            out.append("D %d %s" % (lm, hx(junk)))
    return out


def monitor_date(case, impl_line):
    """RFC 9110 13.1.3: 304 unless the selected representation's last modification date is later than the date given"""
    import calendar, re as _re
    t = case.split(); lm = int(t[1]); txt = unhx(t[2]).decode("latin-1")
    m = (_re.fullmatch(r"(\w{3}), (\d\d) (\w{3}) (\d{4}) (\d\d):(\d\d):(\d\d) GMT", txt) or
         _re.fullmatch(r"(\w{6,9}), (\d\d)-(\w{3})-(\d\d) (\d\d):(\d\d):(\d\d) GMT", txt) or None)
    ma = _re.fullmatch(r"(\w{3}) (\w{3}) ([ \d]\d) (\d\d):(\d\d):(\d\d) (\d{4})", txt)
    if m:
        day, mon, yr, hh, mm, ss = int(m.group(2)), m.group(3), int(m.group(4)), int(m.group(5)), int(m.group(6)), int(m.group(7))
        if yr < 100: yr += 2000 if yr + 2000 <= 2073 else 1900
    elif ma:
        mon, day, hh, mm, ss, yr = ma.group(2), int(ma.group(3)), int(ma.group(4)), int(ma.group(5)), int(ma.group(6)), int(ma.group(7))
    else:
        return None if impl_line == "1" else "an unparsable If-Modified-Since date %r was treated as 'not modified'" % txt
    if mon not in MON or not (1 <= day <= 31 and hh < 24 and mm < 60 and ss < 61) or (m and m.group(1) not in WD + WDL) or (ma and ma.group(1) not in WD):
        return None            # not a valid date: either answer is defensible
    try: ims = calendar.timegm((yr, MON.index(mon) + 1, day, hh, mm, ss))
    except Exception: return None
    want = "1" if lm > ims else "0"
    if impl_line != want:
        return "If-Modified-Since %r (instant %d) against a modification time of %d: http_date_if_modified_since says %s, RFC 9110 says %s" % (txt, ims, lm, impl_line, want)
    return None



# ------------------------------------------------------------------ conditional requests (If-None-Match / If-Modified-Since)
def parse_etag(b):
    """(weak, opaque) of a grammatical entity-tag (RFC 9110 8.8.3), else None"""
    weak = b.startswith(b"W/")
    q = b[2:] if weak else b
    if len(q) < 2 or q[:1] != b'"' or q[-1:] != b'"': return None
    if any(c == 0x22 or c < 0x21 or c == 0x7f for c in q[1:-1]): return None
    return weak, q


def parse_inm(v):
    """'*' | list of (weak, opaque) for a grammatical If-None-Match value (#entity-tag with empty elements allowed), else None.
    Entity-tags may contain commas inside the quotes."""
    if v == b"*": return "*"
    out = []; i = 0; n = len(v); need_comma = False
    while i < n:
        c = v[i:i + 1]
        if c in b" \t": i += 1; continue
        if c == b",": need_comma = False; i += 1; continue
        if need_comma: return None
        j = i + 2 if v[i:i + 2] == b"W/" else i
        if v[j:j + 1] != b'"': return None
        k = v.find(b'"', j + 1)
        if k < 0: return None
        t = parse_etag(v[i:k + 1])
        if t is None: return None
        out.append(t); i = k + 1; need_comma = True
    return out if out else None


def rfc_inm_matches(etag, value, weak_ok):
    """True/False per RFC 9110 13.1.2 (weak comparison, strong when weak_ok is False); None when etag or value is not grammatical"""
    e = parse_etag(etag); l = parse_inm(value)
    if e is None or l is None: return None
    if l == "*": return True
    return any(o == e[1] and (weak_ok or (not w and not e[0])) for w, o in l)


def monitor_etag(case, impl_line):
    t = case.split()
    want = rfc_inm_matches(unhx(t[2]), unhx(t[3]), t[1] == "1")
    if want is None or impl_line == ("1" if want else "0"): return None
    return "http_etag_matches(etag %r, If-None-Match %r, %s comparison) says %s, RFC 9110 says %s" % (
        unhx(t[2]), unhx(t[3]), "weak" if t[1] == "1" else "strong", impl_line, "1" if want else "0")


def monitor_cond(case, impl_line):
    """the property's clause: GET/HEAD on a representation with an entity tag: 304 iff If-None-Match matches (strong when Range is present)
    or, absent If-None-Match, If-Modified-Since is an HTTP-date not earlier than the modification time"""
    t = case.split(); fl = t[1]
    if fl[0] not in "12" or t[4] == "~": return None
    opt = lambda x: None if x == "~" else (unhx(x) or None)          # an empty field value is no field (the request parser drops it)
    inm, ims, etag, lmod, lmt = opt(t[2]), opt(t[3]), opt(t[4]), opt(t[5]), int(t[6])
    if etag is None: return None
    if inm is not None:
        want = rfc_inm_matches(etag, inm, fl[1] != "1")
        if want is None: return None
    elif ims is not None:
        if lmod is None: return None
        v = monitor_date("D %d %s" % (lmt, hx(ims)), "0")       # None iff "not modified since" is (or may be) right
        v1 = monitor_date("D %d %s" % (lmt, hx(ims)), "1")
        if v is None and v1 is None: return None                # not a valid date: either answer defensible
        want = v is None
    else:
        want = False
    got = impl_line == "304"
    if got != want:
        return "conditional %s with If-None-Match %r, If-Modified-Since %r on ETag %r, Last-Modified %r (%d): answered %s, RFC 9110 says %s" % (
            "GET" if fl[0] == "1" else "HEAD", inm, ims, etag, lmod, lmt, impl_line, "304" if want else "no 304")
    return None


def cond_cases(ctx):
    rng = ctx.rng; thorough = ctx.tier == "thorough"
    out = []
    tags = [b'"123"', b'W/"123"', b'"12"', b'"1234"', b'"a,b"', b'""', b'W/""', b'"123,"', b'",123"', b'"x"', b'W/"x"', b'"W/"']
    seps = [b", ", b",", b" , ", b",,", b"\t,\t", b" ,, "]
    junk = [b"", b"*", b" *", b"* ", b"*,", b'*, "123"', b'"123", *', b'"123', b'123', b'"123"x', b'x"123"', b'"123" "x"', b'W/', b'W/*', b'w/"123"', b'W/ "123"',
            b'"x" "123"', b'"x"\t"123"', b'"1"23"', b',', b' ', b'"x","123', b'"123"\t', b'\t"123"', b'"x";"123"', b'W/"123"W/"123"']
    def value():
        r = rng.random()
        if r < 0.12: return rng.choice(junk)
        k = rng.choice([1, 1, 2, 2, 3, 5])
        v = rng.choice([b"", b"", b" ", b","]) + rng.choice(seps).join(rng.choice(tags) for _ in range(k)) + rng.choice([b"", b"", b" ", b",", b" ,"])
        if r > 0.95: v = bytes(c for c in v if rng.random() > 0.06)
        return v
    for e in tags + [b"", b"W/", b"123", b'"']:
        for v in junk + tags:
            for wk in "01":
                out.append("M %s %s %s" % (wk, hx(e) if e else "-", hx(v) if v else "-"))
    for _ in range(30000 if thorough else 4000):
        out.append("M %s %s %s" % (rng.choice("01"), hx(rng.choice(tags)), hx(value()) or "-"))
    # the decision: method x Range x If-None-Match x If-Modified-Since x ETag x Last-Modified
    for _ in range(40000 if thorough else 6000):
        t = rng.choice([0, 86399, 951782400, 1000000000, 1709251199, 2147483648, rng.randrange(0, 4102444800)])
        sp = [x for _, x in date_spellings(t)] if 126230400 <= t < 3281904000 else [x for k, x in date_spellings(t) if k != "rfc850"]
        lmod = sp[0]
        r = rng.random()
        if r < 0.35: ims = None
        elif r < 0.5: ims = lmod
        elif r < 0.9:
            dt = rng.choice([-1, 0, 1, -86400, 86400, 3600])
            t2 = max(0, t + dt)
            sp2 = [x for k, x in date_spellings(t2) if k != "rfc850" or 126230400 <= t2 < 3281904000]
            ims = rng.choice(sp2)
        else: ims = rng.choice(["yesterday", lmod + " ", lmod[:-1], "", lmod.replace("GMT", "UTC")])
        inm = None if rng.random() < 0.4 else value()
        etag = None if rng.random() < 0.1 else rng.choice(tags[:6])
        fl = rng.choice(["10", "10", "11", "20", "21", "00", "01"])
        tok = lambda x: "~" if x is None else (hx(x if isinstance(x, bytes) else x.encode()) or "-")
        out.append("E %s %s %s %s %s %d" % (fl, tok(inm), tok(ims), tok(etag), tok(lmod) if rng.random() < 0.95 else "~", t))
    return out


def run_system_conditional(ctx):
    """the assembled path: mod_staticfile creates ETag / Last-Modified from the file and hands them to http_response_handle_cachable and
    http_range_rfc7233; judged by the RFC monitor above (entity tags and dates taken from the server's own first answer)"""
    import srv, os, calendar
    rng = ctx.rng
    files = {"/a.txt": b"0123456789" * 10, "/b.bin": bytes(range(256)) * 3, "/empty": b""}
    s = srv.Server(ctx, "cond15", "", files=files, modules=[], sanitize=(ctx.tier == "thorough"))
    s.start()
    n = 0; bad = []
    try:
        for path, content in files.items():
            old = 1000000000 + rng.randrange(0, 500000000)
            os.utime(os.path.join(s.docroot, path.lstrip("/")), (old, old))
            st, hs, body, _ = srv.split_response(s.roundtrip(("GET %s HTTP/1.1\r\nHost: x\r\nConnection: close\r\n\r\n" % path).encode()))
            h = {k.lower(): v for k, v in hs}
            etag = h.get(b"etag", h.get("etag")); lmod = h.get(b"last-modified", h.get("last-modified"))
            if isinstance(etag, str): etag = etag.encode("latin-1")
            if isinstance(lmod, str): lmod = lmod.encode("latin-1")
            if st != 200 or not etag or not lmod:
                bad.append("GET %s: status %s, ETag %r, Last-Modified %r (expected 200 with both validators)" % (path, st, etag, lmod)); continue
            if body != content: bad.append("GET %s: body differs from the file" % path)
            other = b'"' + etag.strip(b'"')[:-1] + b'"'
            inms = [None, etag, b"W/" + etag, other, b"*", other + b", " + etag, b"W/" + etag + b" , " + other, other + b"," + other, etag + b"x", etag[:-1], b" " + etag + b" ,"]
            t = old
            imss = [None, lmod] + [x.encode() for dt in (-1, 0, 1, -86400, 86400) for k, x in date_spellings(t + dt) if k != "rfc850" or dt == 0] + [b"junk", lmod + b" x"]
            combos = [(m, r, i, d) for m in ("GET", "HEAD") for r in (False, True) for i in inms for d in imss]
            if ctx.tier != "thorough": combos = rng.sample(combos, 160)
            for m, r, inm, ims in combos:
                req = "%s %s HTTP/1.1\r\nHost: x\r\nConnection: close\r\n" % (m, path)
                if r: req += "Range: bytes=0-3\r\n"
                raw = req.encode() + (b"If-None-Match: " + inm + b"\r\n" if inm is not None else b"") + (b"If-Modified-Since: " + ims + b"\r\n" if ims is not None else b"") + b"\r\n"
                st2, hs2, body2, _ = srv.split_response(s.roundtrip(raw))
                n += 1
                case = "E %s%s %s %s %s %s %d" % ("1" if m == "GET" else "2", "1" if r else "0", "~" if inm is None else hx(inm), "~" if ims is None else hx(ims), hx(etag), hx(lmod), old)
                why = monitor_cond(case, "304" if st2 == 304 else "0")
                if why: bad.append(why + " (server answered %s)" % st2)
                elif st2 == 304 and body2: bad.append("304 with a body: %r" % raw)
                elif st2 not in (304, 200, 206, 416): bad.append("unexpected status %s for %r" % (st2, raw))
                elif st2 == 206 and m == "GET" and body2 != content[0:4]: bad.append("206 body %r is not bytes 0-3 of the file for %r" % (body2, raw))
    finally:
        s.stop()
    for b in bad[:2]:
        ctx.violate("cond-system:" + b[:60], "C15 fails on the running server: " + b, dict(kind="system-conditional", why=b))
    ctx.cov["evaluations"] += n
    ctx.cov["correspondence"]["conditional_system"] = dict(requests=n, violations=len(bad))
    return bool(bad)


def gen_cases(ctx):
    rng = ctx.rng
    thorough = ctx.tier == "thorough"
    cases = date_cases(ctx) + cond_cases(ctx)
    dist = dict(exhaustive_1_2_specs=0, three_specs=0, gap_boundary=0, many=0, junk=0, precond=0, parse_only=0)
    content_for = lambda L: bytes((i * 7 + 3) % 251 for i in range(L))
    # (1) exhaustive: all single specs and all pairs over boundary numbers for small lengths
    lens = range(1, 13) if thorough else [1, 2, 3, 5, 12]
    for L in lens:
        sp = specs_for(L, boundary_numbers(L))
        c = content_for(L)
        for a in sp:
            cases.append(mk_case(("bytes=" + a).encode(), c)); dist["exhaustive_1_2_specs"] += 1
        for a, b in itertools.product(sp, sp):
            cases.append(mk_case(("bytes=%s,%s" % (a, b)).encode(), c, layout=rng.choice(["m", "M2", "f", "F3"])))
            dist["exhaustive_1_2_specs"] += 1
        n3 = 20000 if thorough else 1500
        for _ in range(n3):
            v = ",".join(rng.choice(sp) for _ in range(3))
            cases.append(mk_case(("bytes=" + v).encode(), c, layout=rng.choice(["m", "M1", "f", "F2"]))); dist["three_specs"] += 1
    # (2) coalescing gap boundaries (80) with larger lengths
    for _ in range(30000 if thorough else 4000):
        L = rng.choice([81, 82, 100, 163, 200, 500, 1000])
        c = content_for(L)
        k = rng.choice([2, 2, 3, 3, 4, 6, 11, 12])
        parts = []
        base = rng.randrange(0, L)
        for _ in range(k):
            a = max(0, min(L + 2, base + rng.choice([-200, -83, -82, -81, -80, -79, -2, -1, 0, 1, 2, 79, 80, 81, 82, 83, 200])))
            w = rng.choice([0, 0, 1, 2, 5, 79, 80, 81])
            form = rng.random()
            if form < 0.75: parts.append("%d-%d" % (a, a + w))
            elif form < 0.85: parts.append("%d-" % a)
            elif form < 0.95: parts.append("-%d" % rng.choice([0, 1, 2, 80, 81, L - 1, L, L + 1]))
            else: parts.append(rng.choice(["", " ", "x", "1-x", "--1", "1--2", "+3-4", " 5 - 6 ", "\t7-\t8", "0x1-2", "1-2-3", "1 2-3"]))
            base = a + w + rng.choice([0, 1, 79, 80, 81, 82, -100])
        sep = rng.choice([",", ",", ", ", " ,", ",\t"])
        cases.append(mk_case(("bytes=" + sep.join(parts)).encode(), c, layout=rng.choice(["m", "M7", "M64", "f", "F50"]))); dist["gap_boundary"] += 1
    # (3) many ranges: sorted beyond RMAX, unsorted beyond RMAX_UNSORTED
    for _ in range(600 if thorough else 120):
        L = rng.choice([2000, 30000])
        c = content_for(L)
        n = rng.choice([9, 10, 11, 12, 20, 21, 22, 127, 128, 129, 130, 140])
        step = rng.choice([1, 82, 83, 100, 200])
        starts = [i * step for i in range(n)]
        mode = rng.random()
        if mode < 0.4: pass
        elif mode < 0.6: starts.reverse()
        elif mode < 0.8:
            j = rng.randrange(0, n); starts.insert(j, starts.pop())
        else: rng.shuffle(starts)
        v = ",".join("%d-%d" % (s % L, min(L - 1, (s % L) + rng.choice([0, 1, 2]))) for s in starts)
        cases.append(mk_case(("bytes=" + v).encode(), c, layout=rng.choice(["m", "f", "M1000"]))); dist["many"] += 1
    # (4) junk / separators / units
    alphabet = "0123456789-,= \t+bytesBYTESx;.\x7f\xff"
    for _ in range(20000 if thorough else 3000):
        L = rng.choice([1, 2, 10, 100])
        v = "".join(rng.choice(alphabet) for _ in range(rng.randrange(0, 24)))
        pre = rng.choice(["bytes=", "bytes=", "Bytes=", "BYTES=", "byte=", "bytes", "bytes =", "items=", ""])
        cases.append(mk_case((pre + v).encode("latin-1"), content_for(L), layout=rng.choice(["m", "f"]))); dist["junk"] += 1
    # (5) precondition matrix (exhaustive)
    c = content_for(20)
    for fl in itertools.product("01", repeat=4):
        for status in (200, 206, 404):
            for meth in (0, 1, 2):
                for ar in (None, b"none", b"bytes"):
                    for (ifr, et, lm) in ((None, None, None), (b'"e1"', b'"e1"', None), (b'"e1"', b'"e2"', None), (b'W/"e1"', b'W/"e1"', None),
                                          (b"Sat, 01 Jan 2000 00:00:00 GMT", b'"e1"', b"Sat, 01 Jan 2000 00:00:00 GMT"),
                                          (b"Sat, 01 Jan 2000 00:00:01 GMT", b'"e1"', b"Sat, 01 Jan 2000 00:00:00 GMT"), (b'"e1"', None, None)):
                        for rv in (b"bytes=2-5", None, b"bytes=30-", b"bytes=0-0,-1"):
                            cases.append(mk_case(rv, c, flags="".join(fl), status=status, meth=meth, ar=ar, ifr=ifr, et=et, lm=lm,
                                                 ct=rng.choice([None, b"text/plain"])))
                            dist["precond"] += 1
    # (6) parse-only with huge representation lengths (no content needed): off_t boundaries
    for _ in range(20000 if thorough else 4000):
        L = rng.choice([2**62 - 1, 2**62 - 2, 2**40, 10**18, 1, 100])
        nums = [0, 1, 79, 80, 81, L - 82, L - 81, L - 80, L - 2, L - 1, L, L + 1, 2**63 - 2, 2**63 - 1, 2**63, 2**64, 10**30]
        k = rng.choice([1, 1, 2, 3, 5])
        el = []
        for _ in range(k):
            a, b = rng.choice(nums), rng.choice(nums)
            el.append(rng.choice(["%d-%d" % (a, b), "%d-" % a, "-%d" % a, "%d - %d" % (min(a, b), max(a, b))]))
        cases.append("P %d %s" % (L, hx(",".join(el)))); dist["parse_only"] += 1
    ctx.cov["distribution"]["range"] = dist
    return cases


def run(ctx):
    ok = ctx.prove()
    exe = vlib.cc_harness(ctx, "range_h", link_srcs=LINK, sanitize=(ctx.tier == "thorough"))
    model = vlib.model_driver("C15")
    import os
    corpus = []
    cp = os.path.join(vlib.VERIF, "corpus", "C15.txt")
    if os.path.exists(cp):
        corpus = [l.strip() for l in open(cp) if l.strip() and not l.startswith("#")]
    cases = corpus + gen_cases(ctx)
    rc_i, out_i, err_i = vlib.run_lines_sharded(exe, cases)
    rc_m, out_m, err_m = vlib.run_lines_sharded(model, cases)
    ctx.cov["evaluations"] += len(cases)
    ctx.cov["distinct_nontrivial"] += len(set(c for c, o in zip(cases, out_m) if not o.startswith("200 ") and o != "0"))
    ctx.cov["rule"] = ("Range cases: exhaustive 1- and 2-spec sets over boundary numbers {0,1,len-2,len-1,len,len+1,2^63-2,2^63-1,2^63,1e20} "
                       "for small lengths, seeded 3-spec sets, coalescing-gap boundaries (79..83), >RMAX / >RMAX_UNSORTED sets, junk, the full "
                       "precondition matrix, parse-only off_t boundaries; non-trivial = model answer is not a plain 200 pass-through / empty parse; "
                       "distinct = distinct input lines")
    ctx.add_samples([dict(case=c, impl=o) for c, o in list(zip(cases, out_i))[:: max(1, len(cases) // 6)]])
    if rc_i != 0:
        ctx.violate("range-harness-crash", "range harness exited with %d: %s" % (rc_i, err_i[-600:]),
                    dict(kind="crash", stderr=err_i[-3000:]))
    n = min(len(cases), len(out_i), len(out_m))
    dis = [i for i in range(n) if out_i[i] != out_m[i]]
    ctx.cov["correspondence"]["range"] = dict(cases=len(cases), disagreements=len(dis))
    reported = 0
    found_input = False
    for i in sorted(dis, key=lambda i: len(cases[i]))[:200]:
        why = monitor(cases[i], out_i[i])
        if why:
            found_input = True
            if reported < 3:
                ctx.violate("range:" + why.split(" ")[0] + ":" + cases[i][:40], "C15 fails on the implementation: %s; input %s" % (why, describe(cases[i])),
                            dict(kind="monitor", case=cases[i], input=describe(cases[i]), impl=out_i[i], model=out_m[i], why=why, harness="range_h"))
                reported += 1
    if dis and not found_input:
        i = min(dis, key=lambda i: len(cases[i]))
        ctx.violate("range-correspondence", "http_range.c no longer computes the model's function (correspondence C15.RangeModel broken), e.g. %s: impl=%s model=%s"
                    % (describe(cases[i]), out_i[i][:200], out_m[i][:200]),
                    dict(kind="correspondence", correspondence="C15.RangeModel.range_rfc7233 vs http_range_rfc7233", case=cases[i],
                         input=describe(cases[i]), impl=out_i[i], model=out_m[i], disagreements=len(dis)), no_input=True)
    # independent monitor on a sample of agreeing cases too (guards the model itself)
    for i in range(0, n, max(1, n // 3000)):
        why = monitor(cases[i], out_i[i])
        if why:
            ctx.violate("range:" + why.split(" ")[0] + ":" + cases[i][:40], "C15 fails on the implementation (model agrees!): %s; input %s" % (why, describe(cases[i])),
                        dict(kind="monitor", case=cases[i], input=describe(cases[i]), impl=out_i[i], why=why))
            break
    # the conditional-request clauses are judged on every M / E case (cheap), whether or not the model agrees
    nce = 0; bad = 0
    for i in range(n):
        if cases[i][:2] in ("M ", "E "):
            nce += 1
            why = monitor(cases[i], out_i[i])
            if why:
                bad += 1; found_input = True
                if bad <= 2:
                    ctx.violate("cond:" + cases[i][:48], "C15 fails on the implementation: %s; input %s" % (why, describe(cases[i])),
                                dict(kind="monitor", case=cases[i], input=describe(cases[i]), impl=out_i[i], model=out_m[i], why=why, harness="range_h"))
    ctx.cov["correspondence"]["conditional"] = dict(cases=nce, rfc_violations=bad, answers_304=sum(1 for i in range(n) if cases[i][:2] == "E " and out_i[i] == "304"),
                                                    etag_matches=sum(1 for i in range(n) if cases[i][:2] == "M " and out_i[i] == "1"))
    if run_system_conditional(ctx): found_input = True
    if not ok:
        if not found_input:
            ctx.proof_broken_violation()


def describe(case):
    t = case.split()
    if t[0] == "P":
        return "http_range_parse(%r, len=%s)" % (unhx(t[2]), t[1])
    if t[0] == "D":
        return "http_date_if_modified_since(%r, lmtime=%s)" % (unhx(t[2]), t[1])
    if t[0] == "M":
        return "http_etag_matches(etag=%r, value=%r, weak_ok=%s)" % (unhx(t[2]), unhx(t[3]), t[1])
    if t[0] == "E":
        o = lambda x: None if x == "~" else unhx(x)
        return "http_response_handle_cachable(method=%s, range=%s, If-None-Match=%r, If-Modified-Since=%r, ETag=%r, Last-Modified=%r, mtime=%s)" % (
            {"1": "GET", "2": "HEAD", "0": "POST"}[t[1][0]], t[1][1], o(t[2]), o(t[3]), o(t[4]), o(t[5]), t[6])
    d = dict(flags=t[1], status=t[2], meth=t[3], accept_ranges=t[4], range=t[5], if_range=t[6], etag=t[7], last_mod=t[8], ctype=t[9])
    for k in ("accept_ranges", "range", "if_range", "etag", "last_mod", "ctype"):
        d[k] = None if d[k] == "~" else unhx(d[k]).decode("latin-1")
    d["content_len"] = len(unhx(t[10])); d["layout"] = t[11]
    return repr(d)


def replay(ctx, path):
    import json
    obj = json.load(open(path))
    if obj["replay"].get("kind") == "system-conditional":
        print("recorded:", obj["replay"].get("why")); print("running the conditional-request pass on the server of the current tree again")
        bad = run_system_conditional(ctx)
        import shutil; shutil.rmtree(ctx.scratch, ignore_errors=True)
        return 1 if bad else 0
    case = obj["replay"].get("case")
    exe = vlib.cc_harness(ctx, "range_h", link_srcs=LINK)
    model = vlib.model_driver("C15")
    _, oi, _ = vlib.run_lines(exe, [case]); _, om, _ = vlib.run_lines(model, [case])
    print("input:", describe(case)); print("impl :", oi); print("model:", om); print("monitor:", monitor(case, oi[0]) if oi else None)
    import shutil; shutil.rmtree(ctx.scratch, ignore_errors=True)
    return 0 if oi == om else 1
