"""C01 at connection level: the real server, pipelines of valid and invalid requests, random TCP segmentation.
Model: coq/H1/ConnH1.v (run_conn) ; oracle for concrete violations: a strict RFC 9112 section 6 reader written here from the property text."""
import os, re, socket, time, json
from concurrent.futures import ThreadPoolExecutor
import vlib
from vlib import hx, unhx

FLAGS = 9560 | 7          # default http-parseopts incl. header-strict, host-strict, host-normalize
MAXF = 8192
ECHO = b"/cgi/e.sh"
TOKEN = rb"[!#$%&'*+\-.^_`|~0-9A-Za-z]+"


class Verdict(Exception):
    pass


# ------------------------------------------------------------------------------------------------ RFC 9112 reader (the oracle)
def rfc_head(head, strict=True):
    """head: bytes up to and including the first CRLFCRLF.  Returns ('bad', why) for members of the property's rejected class,
    ('ok', framing, v11, keepalive, method, target) for heads this reader is sure about, ('unsure', why) otherwise."""
    if b"\x00" in head: return ("bad", "NUL byte in the request line or header section")
    lines = head[:-4].split(b"\r\n")
    if any(b"\n" in l for l in lines): return ("bad", "bare LF line end") if strict else ("unsure", "bare LF line end, header-strict off")
    m = re.fullmatch(rb"(" + TOKEN + rb") ([^ ]+) HTTP/1\.([01])", lines[0])
    if not m:
        if re.fullmatch(rb"(" + TOKEN + rb") .* HTTP/1\.[01]", lines[0], flags=re.S) and re.search(rb"[\x00-\x1f\x7f]", lines[0]):
            return ("bad", "control character in the request-target") if strict else ("unsure", "control character, header-strict off")
        return ("unsure", "request line %r" % lines[0][:60])
    meth, target, minor = m.group(1), m.group(2), m.group(3)
    if re.search(rb"[\x00-\x1f\x7f]", target): return ("bad", "control character in the request-target") if strict else ("unsure", "control character, header-strict off")
    fields = []
    for l in lines[1:]:
        if l[:1] in (b" ", b"\t"): return ("unsure", "obs-fold")
        fm = re.fullmatch(rb"([^:]*):[ \t]*(.*?)[ \t]*", l, flags=re.S)
        if not fm: return ("unsure", "header line without colon %r" % l[:40])
        k, v = fm.group(1), fm.group(2)
        if k[-1:] in (b" ", b"\t"): return ("bad", "whitespace before the field colon") if strict else ("unsure", "whitespace before the colon, header-strict off")
        if not re.fullmatch(TOKEN, k): return ("unsure", "field name %r" % k[:40])
        if re.search(rb"[\x00-\x08\x0a-\x1f\x7f]", v): return ("bad", "control character in a field value") if strict else ("unsure", "control character, header-strict off")
        fields.append((k.lower(), v))
    cl = [v for k, v in fields if k == b"content-length"]
    te = [v for k, v in fields if k == b"transfer-encoding"]
    host = [v for k, v in fields if k == b"host"]
    conn = b",".join(v for k, v in fields if k == b"connection").lower()
    if len(cl) > 1: return ("bad", "repeated Content-Length")
    if cl and not re.fullmatch(rb"[0-9]+", cl[0]): return ("bad", "non-numeric Content-Length %r" % cl[0])
    if cl and int(cl[0]) > 2 ** 63 - 1: return ("bad", "Content-Length overflow")
    if any(v.lower() != b"chunked" for v in te) or len(te) > 1: return ("bad", "Transfer-Encoding other than exactly chunked")
    if te and minor == b"0": return ("bad", "Transfer-Encoding on HTTP/1.0")
    if te and cl: return ("bad", "Content-Length together with Transfer-Encoding") if strict else ("unsure", "Content-Length with Transfer-Encoding, header-strict off")
    if minor == b"1" and not host and not re.match(rb"https?://[^/ ]+/", target, flags=re.I): return ("bad", "HTTP/1.1 request without Host")
    if len(host) > 1 or any(k in (b"expect", b"upgrade", b"http2-settings") for k, _ in fields): return ("unsure", "Host repeated / Expect / Upgrade")
    if meth in (b"CONNECT", b"PRI", b"HEAD") or target == b"*": return ("unsure", "method/target form outside this reader")
    if host and not re.fullmatch(rb"[A-Za-z0-9]([A-Za-z0-9\-]*[A-Za-z0-9])?(\.[A-Za-z]([A-Za-z0-9\-]*[A-Za-z0-9])?)*(:[0-9]*)?", host[0]): return ("unsure", "Host %r" % host[0][:40])
    ctoks = [t.strip(b" \t") for t in conn.split(b",")]
    if any(t and not re.fullmatch(TOKEN, t) for t in ctoks): return ("unsure", "Connection value %r" % conn[:40])
    ka = (b"close" not in ctoks) if minor == b"1" else (b"keep-alive" in ctoks)
    framing = ("chunked",) if te else ("len", int(cl[0])) if cl else ("none",)
    if meth in (b"GET",) and framing != ("none",) and framing != ("len", 0): return ("unsure", "GET with a body")
    return ("ok", framing, minor == b"1", ka, meth, target)


def rfc_chunked(data, pos):
    """strict chunked-body reader: (body, new pos) | raises Verdict('bad'|'incomplete'|'unsure', why)"""
    body = b""
    while True:
        e = data.find(b"\n", pos)
        if e < 0: raise Verdict("incomplete", "chunk-size line")
        line = data[pos:e + 1]
        # chunk framing = size digits and line ends; what a chunk extension says is not judged here (only that it cannot hide a line end)
        m = re.fullmatch(rb"([0-9A-Fa-f]+)[ \t]*(;[^\r\n]*)?\r\n", line)
        if not m: raise Verdict("bad", "malformed chunk-size line %r" % line[:40])
        if m.group(2) and re.search(rb"[\x00-\x08\x0b-\x1f\x7f]", m.group(2)): raise Verdict("unsure", "control byte in a chunk extension")
        n = int(m.group(1), 16)
        if n >= 2 ** 63: raise Verdict("bad", "chunk size overflow")
        pos = e + 1
        if n == 0:
            # trailer section: field lines, then CRLF
            while True:
                e = data.find(b"\n", pos)
                if e < 0: raise Verdict("incomplete", "trailer section")
                l = data[pos:e + 1]
                pos = e + 1
                if l == b"\r\n": return body, pos
                if not re.fullmatch(TOKEN + rb":[ \t]*[^\x00-\x08\x0a-\x1f\x7f]*\r\n", l): raise Verdict("unsure", "trailer line %r" % l[:40])
        if len(data) < pos + n + 2: raise Verdict("incomplete", "chunk data")
        body += data[pos:pos + n]
        if data[pos + n:pos + n + 2] != b"\r\n": raise Verdict("bad", "chunk data not followed by CRLF")
        pos += n + 2


def rfc_messages(stream, strict=True):
    """[('ok', method, target, body, ka)] ... then possibly one of ('bad', why) / ('incomplete', why) / ('unsure', why)"""
    out = []; pos = 0
    while pos < len(stream):
        if stream[pos:pos + 1] in (b"\r", b"\n"):          # an empty line before a request line may be ignored (RFC 9112 2.2) or refused; either way is fine
            out.append(("unsure", "empty line before a request line")); return out
        mend = re.compile(rb"\n\r?\n").search(stream, pos)          # the first empty line, whatever its line ends
        if not mend:
            out.append(("incomplete", "header section") if b"\x00" not in stream[pos:] else ("unsure", "NUL in an unfinished header section")); return out
        e = mend.end() - 4
        if e < pos or stream[e:e + 4] != b"\r\n\r\n" or re.search(rb"(?<!\r)\n", stream[pos:e + 4]):
            out.append(("bad", "bare LF line end") if strict else ("unsure", "bare LF line end, header-strict off")); return out
        h = rfc_head(stream[pos:e + 4], strict)
        if h[0] != "ok": out.append(h); return out
        _, framing, v11, ka, meth, target = h
        if e + 4 - pos > MAXF: out.append(("unsure", "header section above the configured limit")); return out
        pos = e + 4
        try:
            if framing[0] == "chunked": body, pos = rfc_chunked(stream, pos)
            elif framing[0] == "len":
                if len(stream) < pos + framing[1]: raise Verdict("incomplete", "Content-Length body")
                body = stream[pos:pos + framing[1]]; pos += framing[1]
            else: body = b""
        except Verdict as v:
            out.append((v.args[0], v.args[1])); return out
        out.append(("ok", meth, target, body, ka))
        if not ka: return out
    return out


# ------------------------------------------------------------------------------------------------ client
def parse_responses(data, closed):
    """tolerant reader of what the server sent: [(status, body)] ; leftover bytes are reported as an extra pseudo response"""
    out = []; pos = 0
    while pos < len(data):
        m = re.compile(rb"HTTP/1\.[01] (\d{3})[^\r\n]*\r\n").match(data, pos)
        if not m: out.append((-1, data[pos:pos + 80])); break
        e = data.find(b"\r\n\r\n", m.end() - 2)
        if e < 0: out.append((-2, data[pos:pos + 80])); break
        hd = data[m.end():e + 2].lower(); st = int(m.group(1)); p = e + 4
        cl = re.search(rb"(?:^|\r\n)content-length:[ \t]*(\d+)", hd)
        if 100 <= st < 200: pos = p; continue
        if st in (204, 304): body = b""
        elif b"transfer-encoding: chunked" in hd:
            body = b""
            while True:
                cm = re.compile(rb"([0-9A-Fa-f]+)\r\n").match(data, p)
                if not cm: body = None; break
                n = int(cm.group(1), 16); p = cm.end()
                if n == 0: p += 2; break
                body += data[p:p + n]; p += n + 2
            if body is None: out.append((-3, data[pos:pos + 80])); break
        elif cl: n = int(cl.group(1)); body = data[p:p + n]; p += n
        else: body = data[p:]; p = len(data)
        out.append((st, body)); pos = p
    return out


def talk(port, segments, gap=0.004, idle=0.35):
    """send the segments one after the other; returns (bytes received, server closed?)"""
    so = socket.socket(); so.settimeout(5.0)
    so.setsockopt(socket.IPPROTO_TCP, socket.TCP_NODELAY, 1)
    data = b""; closed = False
    try:
        so.connect(("127.0.0.1", port))
        for i, sg in enumerate(segments):
            try: so.sendall(sg)
            except OSError: closed = True; break
            if i + 1 < len(segments): time.sleep(gap)
        so.settimeout(idle)
        t0 = time.time()
        while time.time() - t0 < 6.0:
            try: c = so.recv(65536)
            except socket.timeout: break
            except OSError: closed = True; break
            if not c: closed = True; break
            data += c
    except OSError:
        closed = True
    finally:
        so.close()
    return data, closed


# ------------------------------------------------------------------------------------------------ generator
def chunked(blocks, ext=b"", trailers=b"", upper=False):
    out = b""
    for b in blocks:
        sz = (b"%X" if upper else b"%x") % len(b)
        out += sz + ext + b"\r\n" + b + b"\r\n"
    return out + b"0\r\n" + trailers + b"\r\n"


def valid_message(rng, i):
    body = bytes(rng.choice(b"abcxyz0189\r\n \x00GET/") for _ in range(rng.choice([0, 1, 3, 5, 17, 40, 300])))
    conn = rng.choice([b"", b"", b"", b"Connection: keep-alive\r\n", b"Connection: close\r\n"])
    k = rng.randrange(8)
    tgt = ECHO + b"?n=%d" % i
    if k == 0: return b"GET " + tgt + b" HTTP/1.1\r\nHost: h.example\r\n" + conn + b"\r\n"
    if k == 1: return b"GET /index.html HTTP/1.1\r\nHost: h.example\r\n" + conn + b"\r\n"
    if k == 2: return b"POST " + tgt + b" HTTP/1.1\r\nHost: h.example\r\nContent-Length: %d\r\n" % len(body) + conn + b"\r\n" + body
    if k == 3: return b"POST /nosuch HTTP/1.1\r\nHost: h.example\r\nContent-Length: %d\r\n" % len(body) + conn + b"\r\n" + body
    if k == 4:
        blocks = [body[j:j + 7] for j in range(0, len(body), 7)]
        return (b"POST " + tgt + b" HTTP/1.1\r\nHost: h.example\r\nTransfer-Encoding: chunked\r\n" + conn + b"\r\n"
                + chunked(blocks, ext=rng.choice([b"", b"", b";x", b";x=y", b" ; x=\"q r\"", b";a;b=c"]), trailers=rng.choice([b"", b"", b"X-T: 1\r\n", b"A: b\r\nC: d\r\n"]), upper=rng.random() < 0.3))
    if k == 5: return b"POST " + tgt + b" HTTP/1.0\r\nContent-Length: %d\r\n" % len(body) + rng.choice([b"", b"Connection: keep-alive\r\n"]) + b"\r\n" + body
    if k == 6: return b"PUT " + tgt + b" HTTP/1.1\r\nHost: h.example\r\nContent-Length: %d\r\nContent-Type: text/plain\r\n\r\n" % len(body) + body
    return b"DELETE " + tgt + b" HTTP/1.1\r\nhost: H.Example\r\nContent-Length: 0\r\n\r\n"


INVALID = [
    b"POST /cgi/e.sh HTTP/1.1\r\nHost: h.example\r\nContent-Length: 3\r\nContent-Length: 3\r\n\r\nabc",
    b"POST /cgi/e.sh HTTP/1.1\r\nHost: h.example\r\nContent-Length: 3\r\nContent-Length: 4\r\n\r\nabcd",
    b"POST /cgi/e.sh HTTP/1.1\r\nHost: h.example\r\nContent-Length: 3, 3\r\n\r\nabc",
    b"POST /cgi/e.sh HTTP/1.1\r\nHost: h.example\r\nContent-Length: +3\r\n\r\nabc",
    b"POST /cgi/e.sh HTTP/1.1\r\nHost: h.example\r\nContent-Length: 0x3\r\n\r\nabc",
    b"POST /cgi/e.sh HTTP/1.1\r\nHost: h.example\r\nContent-Length: 3\r\nTransfer-Encoding: chunked\r\n\r\n3\r\nabc\r\n0\r\n\r\n",
    b"POST /cgi/e.sh HTTP/1.1\r\nHost: h.example\r\nTransfer-Encoding: gzip, chunked\r\n\r\n3\r\nabc\r\n0\r\n\r\n",
    b"POST /cgi/e.sh HTTP/1.1\r\nHost: h.example\r\nTransfer-Encoding: xchunked\r\n\r\n3\r\nabc\r\n0\r\n\r\n",
    b"POST /cgi/e.sh HTTP/1.1\r\nHost: h.example\r\nTransfer-Encoding: chunked\r\nTransfer-Encoding: chunked\r\n\r\n3\r\nabc\r\n0\r\n\r\n",
    b"POST /cgi/e.sh HTTP/1.0\r\nTransfer-Encoding: chunked\r\n\r\n3\r\nabc\r\n0\r\n\r\n",
    b"POST /cgi/e.sh HTTP/1.1\r\nHost: h.example\r\nTransfer-Encoding : chunked\r\n\r\n3\r\nabc\r\n0\r\n\r\n",
    b"POST /cgi/e.sh HTTP/1.1\r\nHost: h.example\r\nContent-Length : 3\r\n\r\nabc",
    b"POST /cgi/e.sh HTTP/1.1\r\nHost: h.example\nContent-Length: 3\r\n\r\nabc",
    b"GET /cgi/e.sh HTTP/1.1\nHost: h.example\n\n",
    b"GET /cgi/e.sh HTTP/1.1\r\nHost: h.example\r\nX: a\x00b\r\n\r\n",
    b"GET /cgi/e.sh\x00 HTTP/1.1\r\nHost: h.example\r\n\r\n",
    b"GET /cgi/e.sh HTTP/1.1\r\nHost: h.example\r\nX: a\x01b\r\n\r\n",
    b"GET /cgi/\x7fe.sh HTTP/1.1\r\nHost: h.example\r\n\r\n",
    b"GET /cgi/e.sh HTTP/1.1\r\n\r\n",
]
BADCHUNK = [b"3\r\nabc\r\n0\r\n", b"3\nabc\r\n0\r\n\r\n", b"3\r\nabc\n0\r\n\r\n", b"3\r\nabcd\r\n0\r\n\r\n", b"3\r\nab\r\n0\r\n\r\n", b"\r\nabc\r\n0\r\n\r\n", b"g\r\nabc\r\n0\r\n\r\n",
            b"0x3\r\nabc\r\n0\r\n\r\n", b"3 x\r\nabc\r\n0\r\n\r\n", b"3\rx\r\nabc\r\n0\r\n\r\n", b"3;a\rb\r\nabc\r\n0\r\n\r\n", b"3;\x00\r\nabc\r\n0\r\n\r\n", b"-3\r\nabc\r\n0\r\n\r\n", b"+3\r\nabc\r\n0\r\n\r\n",
            b" 3\r\nabc\r\n0\r\n\r\n", b"3\r\nabc\r\n\r\n0\r\n\r\n", b"fffffffffffffffff\r\nabc\r\n0\r\n\r\n", b"7fffffffffffffff\r\nabc\r\n0\r\n\r\n", b"1000000000000000\r\nabc\r\n0\r\n\r\n",
            b"3\r\nabc\r\n0\r\nX: y\r\n", b"3\r\nabc\r\n0\r\nX: y\n\r\n", b"3\r\nabc\r\n00000\r\n\r\n", b"003\r\nabc\r\n0\r\n\r\n", b"3\r\nabc\r\n0;e\r\n\r\n", b"3" + b";" + b"e" * 1100 + b"\r\nabc\r\n0\r\n\r\n",
            b"3\r\nabc\r\n0\r\n" + b"T: " + b"t" * 9000 + b"\r\n\r\n", b"3\r\nabc\r\n0\r\n" + b"T: " + b"t" * 9000, b"3\r\nabc\r\n0\r\nT: \x00\r\n\r\n", b"3\r\nabc\r\n0\r\n" + b"T: t\r\n" * 1500 + b"\r\n"]
HEAD_CH = b"POST /cgi/e.sh?bc HTTP/1.1\r\nHost: h.example\r\nTransfer-Encoding: chunked\r\n\r\n"
FOLLOW = b"GET /cgi/e.sh?follow HTTP/1.1\r\nHost: h.example\r\n\r\n"


def corrupt(rng, s):
    s = bytearray(s); pos = rng.randrange(len(s)); op = rng.randrange(4)
    tok = rng.choice([b"\r", b"\n", b"\r\n", b"\x00", b" ", b"\t", b":", b";", b"0", b"f", b",", b"\x01", b"\x7f", b"\x80", b"G", b"-", b"+", b"%", b"/"])
    if op == 0: s[pos:pos] = tok
    elif op == 1: del s[pos]
    elif op == 2: s[pos:pos + 1] = tok
    else: s[pos] ^= 1 << rng.randrange(8)
    return bytes(s)


def gen_streams(ctx, n):
    rng = ctx.rng; out = []
    # aimed: every invalid head / chunk body alone, after a valid keep-alive request, and followed by a request that must never be answered
    pre = b"POST /cgi/e.sh?pre HTTP/1.1\r\nHost: h.example\r\nContent-Length: 4\r\n\r\nbody"
    for inv in INVALID:
        out += [inv + FOLLOW, pre + inv + FOLLOW]
    for bc in BADCHUNK:
        out += [HEAD_CH + bc + FOLLOW, pre + HEAD_CH + bc + FOLLOW]
    # the smuggling shapes: a body that looks like a request
    smug = b"GET /cgi/e.sh?smuggled HTTP/1.1\r\nHost: h.example\r\n\r\n"
    out.append(b"POST /cgi/e.sh HTTP/1.1\r\nHost: h.example\r\nContent-Length: %d\r\n\r\n" % len(smug) + smug + FOLLOW)
    out.append(HEAD_CH + chunked([smug]) + FOLLOW)
    out.append(b"POST /nosuch HTTP/1.1\r\nHost: h.example\r\nContent-Length: %d\r\n\r\n" % len(smug) + smug + FOLLOW)
    out.append(b"GET /index.html HTTP/1.1\r\nHost: h.example\r\nContent-Length: %d\r\n\r\n" % len(smug) + smug)
    out.append(b"\r\n" + FOLLOW); out.append(pre + b"\r\n" + FOLLOW); out.append(pre + b"\r\n\r\n" + FOLLOW); out.append(pre + b"\n" + FOLLOW); out.append(pre + b"\r" + FOLLOW)
    out.append(b"GET /index.html HTTP/1.1\r\nHost: h.example\r\nX: " + b"x" * 8300 + b"\r\n\r\n" + FOLLOW)
    out.append(b"GET /index.html HTTP/1.1\r\nHost: h.example\r\n" + b"X: y\r\n" * 1300 + b"\r\n" + FOLLOW)
    out.append(b"GET /index.html HTTP/1.1\r\nHost: h.example\r\nX: " + b"x" * 8100 + b"\r\n\r\n" + FOLLOW)
    i = 0
    while len(out) < n:
        msgs = [valid_message(rng, i + j) for j in range(rng.choice([1, 1, 2, 3, 4]))]; i += 5
        s = b"".join(msgs)
        r = rng.random()
        if r < 0.3: out.append(s)
        elif r < 0.85: out.append(corrupt(rng, s))
        else: out.append(corrupt(rng, corrupt(rng, s)))
    return out


def segmentations(rng, s):
    """the stream in one piece, and cut at random points (aimed at line ends and chunk boundaries half of the time)"""
    cuts = set()
    marks = [m.start() + d for m in re.finditer(rb"\r\n", s) for d in (0, 1, 2)]
    for _ in range(rng.choice([1, 2, 3, 5, 8])):
        cuts.add(rng.choice(marks) if marks and rng.random() < 0.5 else rng.randrange(1, max(2, len(s))))
    cuts = sorted(c for c in cuts if 0 < c < len(s))
    segs = [s[a:b] for a, b in zip([0] + cuts, cuts + [len(s)])]
    out = [[s], segs]
    # aimed at the field-size limit: the buffer holds exactly MAXF (+-1) bytes counted from a last-chunk line when the server looks at it
    for m in re.finditer(rb"\r\n0[^\r\n]*\r\n", s):
        st = m.start() + 2
        for d in (MAXF - 1, MAXF, MAXF + 1):
            if st + d < len(s): out.append([s[:st], s[st:st + d], s[st + d:]])
        break
    return out


# ------------------------------------------------------------------------------------------------ judging one observation
def echo_of(meth, body):
    return b"M=" + meth + b" CL=%d BODY=" % len(body) + body


def monitor(stream, resp, closed, strict=True):
    """the property, judged from the property text with the RFC reader above; None when it holds on this observation"""
    msgs = rfc_messages(stream, strict)
    nok = 0
    for m in msgs:
        if m[0] == "ok": nok += 1
        else: break
    tail = msgs[nok] if nok < len(msgs) else None
    if tail and tail[0] == "unsure": limit = None
    elif tail and tail[0] == "bad": limit = nok + 1
    else: limit = nok
    real = [r for r in resp if r[0] >= 0]
    if tail and tail[0] == "bad" and len(real) > nok and real[nok][0] < 400:
        return "a message from the rejected class (%s) was answered with %d" % (tail[1], real[nok][0])
    if limit is not None:
        # beyond the well-formed messages there may be one more response, and only a refusal
        extra = real[nok:]
        if len(extra) > 1 or (extra and extra[0][0] < 400):
            k = nok + (1 if extra[0][0] >= 400 else 0)
            return "%d responses on a connection that carried %d well-formed message(s)%s: the response %s %r answers bytes that belong to %s" % (
                len(real), nok, " and one malformed one" if tail and tail[0] == "bad" else "", real[k][0], real[k][1][:60],
                "the connection after a message that had to be refused (%s)" % tail[1] if tail and tail[0] == "bad" else
                "an unfinished message (%s)" % tail[1] if tail else "a message body")
    for i, m in enumerate(msgs[:nok]):
        if i >= len(real): break
        st, body = real[i]
        if st == 200 and m[2].split(b"?")[0] == ECHO and body.startswith(b"M=") and body != echo_of(m[1], m[3]):
            return "request %d: the backend received %r, the client sent %r" % (i, body[:120], echo_of(m[1], m[3])[:120])
        if st >= 400 and i + 1 < len(real) and st in (400, 411, 413, 431, 505):
            return "request %d was refused with %d but the connection went on to answer %d more" % (i, st, len(real) - i - 1)
    if tail and tail[0] == "bad" and len(real) > nok:
        st, body = real[nok]
        if st < 400:
            return "a message from the rejected class (%s) was answered with %d" % (tail[1], st)
        if not closed:
            return "a message from the rejected class (%s) was answered with %d but the connection stayed open" % (tail[1], st)
    return None


def compare(model_line, resp, closed):
    """None when the observation is what the model predicts, else a description"""
    evs = [e.split() for e in model_line.split(" | ")] if model_line.strip() else []
    real = list(resp)
    i = 0
    for e in evs:
        if e[0] == "O": return None
        if e[0] == "I":
            # the stream ends inside message i: no response is owed; an early refusal (e.g. 404 before the body has arrived) is within the model
            if len(real) > i + 1: return "model: the stream ends inside message %d; server sent %d responses" % (i, len(real))
            if len(real) > i and real[i][0] < 400: return "model: the stream ends inside message %d (no response); server sent %s" % (i, real[i][0])
            return None
        if i >= len(real):
            return "model expects a response to message %d (%s); the server sent %d response(s)%s" % (i, " ".join(e[:2]), len(real), " and closed" if closed else "")
        st, body = real[i]
        if e[0] == "R":
            # the property separates refused from accepted, not one 4xx/5xx from another (a 404 for the target may come before the body is looked at)
            if st < 400: return "message %d: model rejects with %s, server answered %s" % (i, e[1], st)
            if len(real) > i + 1: return "message %d rejected with %s, yet %d more response(s) followed" % (i, st, len(real) - i - 1)
            if not closed: return "message %d rejected with %s but the connection stayed open" % (i, st)
            return None
        # accept
        meth_id, target, mbody, ka, cut = int(e[1]), unhx(e[2]), unhx(e[3]), e[4] == "1", e[5] == "1"
        if st == 200 and target.split(b"?")[0] == ECHO and body.startswith(b"M="):
            mm = re.match(rb"M=(\S+) CL=(\d*) BODY=", body)
            if not mm or body[mm.end():] != mbody: return "message %d: model body %r, backend saw %r" % (i, mbody[:80], body[:120])
        i += 1
        if not ka:
            if len(real) > i: return "message %d ends the connection in the model, the server answered %d more" % (i - 1, len(real) - i)
            if not closed: return "message %d ends the connection in the model (no keep-alive), the server kept it open" % (i - 1)
            return None
        if closed and len(real) == i: return None      # closing earlier than the model requires is always safe (e.g. an error response to a request whose body was not read)
    if len(real) > i: return "the server sent %d response(s), the model has %d message(s): surplus %s %r" % (len(real), i, real[i][0], real[i][1][:60])
    return None


def describe(stream, segs):
    return "bytes %r sent as %d segment(s) of sizes %s" % (stream[:400], len(segs), [len(x) for x in segs][:12])


VARIANTS = [
    dict(name="default", conf="", flags=FLAGS, strict=True, streaming=False),
    dict(name="stream1", conf='server.stream-request-body = 1\n', flags=FLAGS, strict=True, streaming=True),
    dict(name="stream2", conf='server.stream-request-body = 2\n', flags=FLAGS, strict=True, streaming=True),
    dict(name="lenient", conf='server.http-parseopts = ("header-strict" => "disable", "host-strict" => "disable", "host-normalize" => "disable")\n', flags=9560, strict=False, streaming=False),
]
ECHO_SH = ('#!/bin/sh\nprintf \'Content-Type: text/plain\\r\\n\\r\\n\'\nprintf \'M=%s CL=%s BODY=\' "$REQUEST_METHOD" "$CONTENT_LENGTH"\ncat\n').encode()


def chunked_to_cgi(st):
    return bool(re.search(rb"(?i)transfer-encoding", st)) and ECHO in st


def run_variant(ctx, v, model, streams, label):
    import srv as srvmod
    s = srvmod.Server(ctx, "h1conn_" + v["name"], 'cgi.assign = (".sh" => "/bin/sh")\nindex-file.names = ("index.html")\nserver.max-request-field-size = %d\n' % MAXF + v["conf"],
                      files={"index.html": b"INDEX", "cgi/e.sh": ECHO_SH}, modules=["mod_cgi"], sanitize=(ctx.tier == "thorough"))
    rng = ctx.rng.__class__(ctx.seed * 31337 + sum(map(ord, v["name"])))
    jobs = []
    for st in streams:
        for segs in segmentations(rng, st):
            jobs.append((st, segs))
    _, out_m, _ = vlib.run_lines_sharded(model, ["C %d %d %s" % (v["flags"], MAXF, hx(st)) for st in streams])
    pred = dict(zip(streams, out_m))
    s.start()
    try:
        with ThreadPoolExecutor(8) as ex:
            obs = list(ex.map(lambda j: talk(s.port, j[1]), jobs))
        # a reader that gives up after 0.35 s of silence can miss a response that a busy machine delivers late (each CGI request forks a shell):
        # every connection whose observation is not what the model and the other segmentations say is repeated once, alone and patiently
        first = {}
        for (st, segs), o in zip(jobs, obs): first.setdefault(st, o)
        for k, ((st, segs), (data, closed)) in enumerate(zip(jobs, obs)):
            if v["streaming"] and chunked_to_cgi(st): continue          # (known finding: differs by arrival anyway)
            resp = parse_responses(data, closed)
            odd = monitor(st, resp, closed, strict=v["strict"]) or compare(pred[st], resp, closed) or (parse_responses(*first[st]), first[st][1]) != (resp, closed)
            if odd: obs[k] = talk(s.port, segs, gap=0.02, idle=2.5)
        for st in set(j[0] for j in jobs):
            ks = [k for k, j in enumerate(jobs) if j[0] == st]
            if v["streaming"] and chunked_to_cgi(st): continue
            if len(set((tuple(parse_responses(*obs[k])), obs[k][1]) for k in ks)) > 1:
                for k in ks: obs[k] = talk(s.port, jobs[k][1], gap=0.02, idle=2.5)
    finally:
        rc = s.stop()
    stats = dict(streams=len(streams), connections=len(jobs), responses=0, disagreements=0, violations=0, segmentation_differences=0, kinds={})
    found = False; nrep = 0; ndis = 0
    byseg = {}
    for (st, segs), (data, closed) in zip(jobs, obs):
        resp = parse_responses(data, closed)
        stats["responses"] += len(resp)
        for e in pred[st].split(" | "):
            k = e.split()[0] if e.strip() else "-"; stats["kinds"][k] = stats["kinds"].get(k, 0) + 1
        rep = dict(kind="system", variant=v["name"], conf=v["conf"], stream=st.decode("latin-1"), segments=[len(x) for x in segs],
                   responses=[(a, b[:120].decode("latin-1")) for a, b in resp], closed=closed, model=pred[st])
        byseg.setdefault(st, []).append(([(a, b) for a, b in resp], closed))
        why = monitor(st, resp, closed, strict=v["strict"])
        if why:
            stats["violations"] += 1; found = True
            if nrep < 3:
                nrep += 1
                ctx.violate("h1conn:%s:%s" % (v["name"], hx(st)[:48]), "C01 fails on the running server (%s): %s; %s" % (v["name"], why, describe(st, segs)), rep)
            continue
        if v["streaming"] and chunked_to_cgi(st): continue      # 411 or 200 depending on arrival: judged below as a segmentation difference
        dis = compare(pred[st], resp, closed)
        if dis:
            stats["disagreements"] += 1
            if ndis < 2:
                ndis += 1
                ctx.violate("h1conn-correspondence:" + v["name"], "the server no longer frames the connection the way the model does (correspondence %s/%s broken): %s; %s"
                            % (label, v["name"], dis, describe(st, segs)), dict(rep, correspondence=label + "/" + v["name"]), no_input=True)
    def outcome(o):
        resp, closed = o
        return ([(st, body) if st < 400 else ("refused", b"") for st, body in resp], closed)
    for st, lst in byseg.items():
        others = [o for o in lst[1:] if outcome(o) != outcome(lst[0])]
        if others:
            lst = [lst[0], others[0]]
            stats["segmentation_differences"] += 1
            key = "h1conn-segmentation" + (":streaming-chunked-cgi" if v["streaming"] and chunked_to_cgi(st) else "")
            ctx.violate(key, "C01 fails on the running server (%s): the same bytes %r lead to different outcomes depending on how they are cut into TCP segments: in one piece %r, in pieces %r"
                        % (v["name"], st[:300] + (b"..." if len(st) > 300 else b""), [(a, b[:40]) for a, b in lst[0][0]] + [lst[0][1]], [(a, b[:40]) for a, b in lst[1][0]] + [lst[1][1]]),
                        dict(kind="system", variant=v["name"], conf=v["conf"], stream=st.decode("latin-1"), one_piece=str(lst[0])[:600], pieces=str(lst[1])[:600], model=pred[st]))
            if not key.endswith("cgi"): found = True
    if rc not in (0, 1, -15):
        ctx.violate("h1conn-crash:" + v["name"], "server exited with %s under the connection-level streams (%s)" % (rc, v["name"]), dict(kind="crash", log=s.log()[-2000:]))
        found = True
    stats["nontrivial"] = sum(1 for st in streams if pred[st].strip() and pred[st].split()[0] in ("A", "R"))
    return stats, found


def run_system(ctx, label="h1-connection"):
    import srv as srvmod
    srvmod.build_server(ctx.tier == "thorough")
    model = vlib.model_driver("C01")
    thorough = ctx.tier == "thorough"
    streams = gen_streams(ctx, 2500 if thorough else 520)
    found = False; allstats = {}
    with ThreadPoolExecutor(2) as ex:
        futs = [(v["name"], ex.submit(run_variant, ctx, v, model, streams if v["name"] == "default" else streams[: (len(streams) * 2) // 3], label)) for v in VARIANTS]
        for name, f in futs:
            st, fnd = f.result(); allstats[name] = st; found = found or fnd
    ctx.cov["correspondence"][label] = dict(cases=sum(s["connections"] for s in allstats.values()), disagreements=sum(s["disagreements"] for s in allstats.values()), detail=allstats)
    ctx.cov["evaluations"] += sum(s["connections"] for s in allstats.values()); ctx.cov["distinct_nontrivial"] += sum(s["nontrivial"] for s in allstats.values())
    return found
