"""C18 -- WebDAV operations match a reference tree; PUT is all-or-nothing.
Model: coq/Dav/*.v (RFC 4918 tree semantics as an executable specification, PUT staging protocol); implementation: the real
lighttpd of the working tree with mod_webdav on a scratch directory.
Monitor (from the property text): after every request the directory equals the tree the specification prescribes, 2xx exactly when
the effect took place, an error status when nothing changed, nothing outside the root touched; a PUT cut by client abort or
SIGKILL leaves the complete old or the complete new content; no temporary files stay behind."""
import hashlib, json, os, re, signal, socket, sys, time
import vlib, srv
from vlib import hx
sys.path.insert(0, os.path.join(vlib.VERIF, "props"))
import C04 as H1

CONF = r'''
server.stat-cache-engine = "disable"
$HTTP["url"] =^ "/dav/" { webdav.activate = "enable" }
'''
NAMES = ["a", "b", "c", "d1", "d2", "x.txt", "sub"]


def rand_path(rng, depth_max=3):
    return "/" + "/".join(rng.choice(NAMES) for _ in range(rng.randrange(1, depth_max + 1)))


def gen_ops(rng, n, model=None):
    ops = []
    for _ in range(n):
        existing = []
        if model is not None and ops:
            _, mo, _ = vlib.run_lines(model, [" ".join(model_tok(o) for o in ops)])
            existing = [x.split("=")[0] for x in mo[0].partition(" ; ")[2].split()]
        def src():
            return rng.choice(existing) if existing and rng.random() < 0.8 else rand_path(rng)
        def dst():
            if existing and rng.random() < 0.35: return rng.choice(existing)
            if existing and rng.random() < 0.5:
                d = rng.choice(existing); return d.rsplit("/", 1)[0] + "/" + rng.choice(NAMES) if rng.random() < 0.5 else d + "/" + rng.choice(NAMES)
            return rand_path(rng)
        k = rng.random()
        if k < 0.18: ops.append(("mkcol", dst()))
        elif k < 0.42: ops.append(("put", dst(), b"content-%d-" % rng.randrange(1000) + b"x" * rng.choice([0, 1, 50])))
        elif k < 0.52: ops.append(("del", src()))
        elif k < 0.78:
            s, d = src(), dst()
            if rng.random() < 0.15: d = s
            if rng.random() < 0.1: d = s + "/" + rng.choice(NAMES)
            if s.startswith(d + "/"): d = d + "-x"       # a Destination that is an ancestor of the source: see anc_note below
            ops.append(("copy", s, d, rng.random() < 0.7, rng.random() < 0.2, rng.choice(["plain", "plain", "dots", "abs", "enc"])))
        else:
            s, d = src(), dst()
            if rng.random() < 0.15: d = s
            if s.startswith(d + "/"): d = d + "-x"
            ops.append(("move", s, d, rng.random() < 0.7, rng.choice(["plain", "plain", "dots", "abs", "enc"])))
    return ops


# anc_note: RFC 4918 asks for "DELETE the destination, then copy/move" when the destination exists; if the destination is an ancestor of
# the source that deletes the source too, and no server can then carry out the rest.  lighttpd merges the collection into the ancestor;
# the reference tree has nothing to say, so random sequences do not generate the case (a file onto its own parent collection, where
# lighttpd's own cp-like reading makes source and destination the same path, is refused since fix 8258ef5 and is in the fixed sequences)


def spell_dest(d, how, port):
    u = "/dav" + d
    if how == "dots": u = "/dav/./" + d.lstrip("/").replace("/", "/x/../", 1) if "/" in d.lstrip("/") else "/dav/." + d
    if how == "enc": u = "/dav" + d.replace("a", "%61").replace("x", "%78")
    if how == "abs": u = "http://127.0.0.1:%d" % port + u
    return u


def http_op(s, op, dirs=()):
    kind = op[0]
    op = list(op)
    # a WebDAV client addresses a collection with a trailing slash (lighttpd redirects the other spelling with 308)
    if kind != "put" and op[1] in dirs: op[1] += "/"
    if kind in ("copy", "move") and op[1].endswith("/"): op[2] += "/"
    if kind == "put":
        raw = b"PUT /dav" + op[1].encode() + b" HTTP/1.1\r\nHost: 127.0.0.1:%d\r\nContent-Length: %d\r\nConnection: close\r\n\r\n" % (s.port, len(op[2])) + op[2]
    elif kind == "del": raw = b"DELETE /dav" + op[1].encode() + b" HTTP/1.1\r\nHost: 127.0.0.1:%d\r\nConnection: close\r\n\r\n" % s.port
    elif kind == "mkcol": raw = b"MKCOL /dav" + op[1].encode() + b" HTTP/1.1\r\nHost: 127.0.0.1:%d\r\nConnection: close\r\n\r\n" % s.port
    elif kind == "copy":
        raw = (b"COPY /dav" + op[1].encode() + b" HTTP/1.1\r\nHost: 127.0.0.1:%d\r\nDestination: " % s.port + spell_dest(op[2], op[5], s.port).encode() +
               b"\r\nOverwrite: " + (b"T" if op[3] else b"F") + b"\r\nDepth: " + (b"0" if op[4] else b"infinity") + b"\r\nConnection: close\r\n\r\n")
    else:
        raw = (b"MOVE /dav" + op[1].encode() + b" HTTP/1.1\r\nHost: 127.0.0.1:%d\r\nDestination: " % s.port + spell_dest(op[2], op[4], s.port).encode() +
               b"\r\nOverwrite: " + (b"T" if op[3] else b"F") + b"\r\nConnection: close\r\n\r\n")
    data = s.roundtrip(raw, timeout=10.0)
    m = re.match(rb"HTTP/1\.1 (\d{3})", data)
    return int(m.group(1)) if m else None


def model_tok(op):
    k = op[0]
    if k == "put": return "put:%s:%s" % (hx(op[1].encode()), hx(op[2]))
    if k == "del": return "del:" + hx(op[1].encode())
    if k == "mkcol": return "mkcol:" + hx(op[1].encode())
    if k == "copy": return "copy:%s:%s:%d:%d" % (hx(op[1].encode()), hx(op[2].encode()), op[3], op[4])
    return "move:%s:%s:%d" % (hx(op[1].encode()), hx(op[2].encode()), op[3])


def listing(root):
    out = []
    for dp, dns, fns in os.walk(root):
        rel = dp[len(root):]
        for d in dns: out.append("%s/%s=D" % (rel, d))
        for f in fns:
            with open(os.path.join(dp, f), "rb") as fh: out.append("%s/%s=F:%s" % (rel, f, hx(fh.read())))
    return sorted(out)


def outside_state(s):
    return sorted(os.listdir(s.docroot)), sorted(os.listdir(s.root))


def run_sequence(ctx, name, ops, model, sanitize=False):
    s = srv.Server(ctx, name, CONF, files={"/dav/": b"", "/outside.txt": b"do not touch"}, modules=["mod_webdav"], sanitize=sanitize).start()
    root = os.path.join(s.docroot, "dav")
    before = outside_state(s)
    res = None
    try:
        done = []; dirs = set(); real = []
        for i, op in enumerate(ops):
            prev_real = real
            st = http_op(s, op, dirs)
            done.append(op)
            _, mo, _ = vlib.run_lines(model, [" ".join(model_tok(o) for o in done)])
            bits, _, mlist = mo[0].partition(" ; ")
            want_ok = bits[-1] == "1"; got_ok = st is not None and 200 <= st < 300 and st != 207     # 207 Multi-Status reports member errors
            real = listing(root)
            prev_dirs = dirs
            dirs = set(x[:-2] for x in mlist.split() if x.endswith("=D"))
            if op[0] in ("copy", "move") and op[2] in prev_dirs and op[1] not in prev_dirs and op[1] != op[2] and (real != (mlist.split() if mlist else []) or want_ok != got_ok):
                # a non-collection sent onto an existing collection: does the server behave like cp (copy into it) instead of RFC 4918 9.8.4 / 9.9.3?
                alt = list(op); alt[2] = op[2] + "/" + op[1].rsplit("/", 1)[1]
                _, mo2, _ = vlib.run_lines(model, [" ".join(model_tok(o) for o in done[:-1] + [tuple(alt)])])
                b2, _, l2 = mo2[0].partition(" ; ")
                if real == (l2.split() if l2 else []) and (b2[-1] == "1") == got_ok:
                    res = ("%s of the non-collection %s onto the existing collection %s (Overwrite %s) was carried out as %s into the collection (status %s) instead of "
                           "what RFC 4918 prescribes for an existing destination" % (op[0].upper(), op[1], op[2], "T" if op[3] else "F", op[0], st), i, st, "file-onto-collection"); break
            if op[0] in ("copy", "move") and op[1] in prev_dirs and not got_ok and want_ok and real == prev_real and any(x.startswith(op[2] + "=F:") for x in prev_real):
                res = ("%s of the collection %s onto the existing non-collection %s with Overwrite T is refused (status %s, nothing changed): mod_webdav_copymove_b() appends '/' to the "
                       "Destination of a collection and then cannot see the file it would have to replace (RFC 4918 9.8.4: delete the destination, then copy)" % (op[0].upper(), op[1], op[2], st),
                       i, st, "collection-onto-non-collection"); break
            if op[0] in ("copy", "move") and op[1] in prev_dirs and op[2] in prev_dirs and got_ok and want_ok and real != (mlist.split() if mlist else []):
                ex = [x for x in real if x not in mlist.split()]; mi = [x for x in mlist.split() if x not in real]
                if ex and not mi and all(x.startswith(op[2] + "/") and x in prev_real for x in ex):
                    res = ("%s of the collection %s onto the existing collection %s with Overwrite T merges into it (status %s): what was in the destination and is not overwritten stays (%s), "
                           "where RFC 4918 9.8.4 / 9.9.3 prescribe a Depth-infinity DELETE of the destination first" % (op[0].upper(), op[1], op[2], st, ex[:3]), i, st, "collection-onto-collection-merged"); break
            if real != (mlist.split() if mlist else []):
                extra = [x for x in real if x not in mlist.split()][:3]; missing = [x for x in mlist.split() if x not in real][:3]
                res = ("after %s (status %s) the directory differs from the tree RFC 4918 prescribes: unexpected %s, missing %s" % (op[:3] if op[0] != "put" else op[:2], st, extra, missing), i, st); break
            if want_ok != got_ok:
                res = ("%s answered %s but the specification says the operation is %s (the tree is as prescribed)" % (op[:5] if op[0] != "put" else op[:2], st, "done" if want_ok else "refused"), i, st); break
            if outside_state(s) != before:
                res = ("something outside the WebDAV root changed after %s" % (op[:3],), i, st); break
            if open(os.path.join(s.docroot, "outside.txt"), "rb").read() != b"do not touch":
                res = ("a file outside the WebDAV root was modified by %s" % (op[:3],), i, st); break
        alive = s.alive()
    finally:
        rc = s.stop()
    crashed = (not alive) or rc in (98, 99)
    return res, crashed, s.log()[-1500:]


def put_kill_trial(ctx, k, rng, model):
    """a large PUT over an existing file, cut by a client abort or SIGKILL at a random moment; then restart and look"""
    s = srv.Server(ctx, "kill%d" % k, CONF, files={"/dav/": b""}, modules=["mod_webdav"]).start()
    root = os.path.join(s.docroot, "dav")
    old = b"OLD" * 50000; new = b"NEW" * rng.choice([40000, 400000, 1200000])
    tgt = os.path.join(root, "t.bin")
    with open(tgt, "wb") as f: f.write(old)
    how = rng.choice(["client-abort", "sigkill", "sigkill", "complete"])
    why = None
    try:
        c = s.connect(timeout=10.0)
        c.sendall(b"PUT /dav/t.bin HTTP/1.1\r\nHost: h\r\nContent-Length: %d\r\nConnection: close\r\n\r\n" % len(new))
        cut = len(new) if how == "complete" else rng.randrange(0, len(new))
        sent = 0
        try:
            while sent < cut:
                n = c.send(new[sent:min(cut, sent + 65536)]); sent += n
                # a concurrent reader sees the complete old or the complete new file
                if rng.random() < 0.2:
                    d = open(tgt, "rb").read()
                    if d != old and d != new: why = "a concurrent reader saw %d bytes that are neither the old (%d) nor the new (%d) content" % (len(d), len(old), len(new)); break
        except OSError: pass
        if how == "sigkill":
            time.sleep(rng.choice([0, 0.001, 0.01]))
            s.proc.send_signal(signal.SIGKILL); s.proc.wait(); s.proc = None
        elif how == "complete":
            try: c.settimeout(10.0); c.recv(4096)
            except OSError: pass
        c.close()
        time.sleep(0.05 if how != "client-abort" else 0.3)
        d = open(tgt, "rb").read() if os.path.exists(tgt) else None
        if why is None:
            if d is None: why = "the target vanished after a PUT cut by %s" % how
            elif d != old and d != new: why = "after a PUT cut by %s at byte %d the target holds %d bytes: neither the complete old nor the complete new content" % (how, sent, len(d))
            elif how == "complete" and d != new: why = "a completed PUT left the old content"
        left = [f for f in os.listdir(root) if f != "t.bin"]
        if why is None and left and how != "sigkill": why = "temporary files left behind after %s: %s" % (how, left[:3])
    finally:
        if s.proc: s.stop()
    return why, how


def run(ctx):
    ok = ctx.prove()
    model = vlib.model_driver("C18")
    nseq = 24 if ctx.tier == "quick" else 300
    srv.build_server(False)
    found = False; nops = 0
    seqs = [gen_ops(ctx.rng, ctx.rng.choice([8, 15, 30]), model) for _ in range(nseq)]
    # the classic traps: onto itself, copy twice (hard links), into own subtree
    seqs.insert(0, [("put", "/a", b"A"), ("move", "/a", "/a", True, "dots"), ("copy", "/a", "/b", True, False, "plain"), ("copy", "/a", "/b", True, False, "plain"),
                    ("mkcol", "/d1"), ("put", "/d1/x.txt", b"X"), ("copy", "/d1", "/d2", True, False, "plain"), ("copy", "/d1", "/d2", True, False, "abs"),
                    ("move", "/d1", "/d1/sub", True, "plain"), ("copy", "/d2", "/d2", True, False, "enc")])
    # the two recorded deviations, reproduced on every run (known_findings.txt)
    seqs.insert(1, [("mkcol", "/sub"), ("put", "/d1", b"D1"), ("copy", "/sub", "/d1", True, True, "plain")])
    # collections three levels deep: DELETE, COPY and MOVE must reach every member (recursion into sub-collections)
    deep = [("mkcol", "/t"), ("mkcol", "/t/u"), ("mkcol", "/t/u/v"), ("put", "/t/f", b"F"), ("put", "/t/u/g", b"G"), ("put", "/t/u/v/h", b"H")]
    seqs.insert(1, deep + [("copy", "/t", "/c", True, False, "plain"), ("del", "/t"), ("move", "/c", "/m", True, "plain"), ("del", "/m/u"), ("del", "/m")])
    seqs.insert(1, deep + [("mkcol", "/e"), ("put", "/e/old", b"O"), ("move", "/t/u", "/w", True, "enc"), ("copy", "/w", "/t/u2", False, False, "dots"), ("del", "/t")])
    seqs.insert(2, [("put", "/x.txt", b"X"), ("mkcol", "/d2"), ("copy", "/x.txt", "/d2", True, False, "plain")])
    seqs.insert(3, [("mkcol", "/sub"), ("mkcol", "/d2"), ("mkcol", "/d2/b"), ("move", "/sub", "/d2", True, "plain")])
    # a file sent onto its own parent collection (fix 8258ef5: used to answer 204 and lose the file)
    seqs.insert(3, [("mkcol", "/d1"), ("put", "/d1/sub", b"S"), ("move", "/d1/sub", "/d1", True, "plain"), ("copy", "/d1/sub", "/d1", True, False, "abs"), ("put", "/d1/sub", b"T")])
    from concurrent.futures import ThreadPoolExecutor
    with ThreadPoolExecutor(max_workers=8) as ex:
        outs = list(ex.map(lambda a: run_sequence(ctx, "q%d" % a[0], a[1], model), enumerate(seqs)))
    for ops, (res, crashed, log) in zip(seqs, outs):
        nops += len(ops)
        if crashed:
            ctx.violate("c18-server-crash", "lighttpd died during a WebDAV sequence: %s" % log[-500:], dict(kind="crash", ops=[list(map(str, o)) for o in ops], log=log)); found = True
        if res:
            why, i, st = res[:3]
            key = "c18:" + (res[3] if len(res) > 3 else re.sub(r"'[^']*'|\d+", "#", why)[:70])
            if any(k == key for k, _ in ctx.known): found = found
            else: found = True
            ctx.violate(key, "C18 fails on the implementation: %s" % why,
                        dict(kind="monitor", ops=[[x.decode("latin-1") if isinstance(x, bytes) else x for x in o] for o in ops[:i + 1]], why=why))
    ctx.cov["correspondence"]["dav-sequences"] = dict(sequences=len(seqs), operations=nops)
    ntr = 10 if ctx.tier == "quick" else 80
    kinds = {}
    for k in range(ntr):
        why, how = put_kill_trial(ctx, k, ctx.rng, model)
        kinds[how] = kinds.get(how, 0) + 1
        if why:
            ctx.violate("c18-put:" + re.sub(r"\d+", "#", why)[:60], "C18 (PUT is all-or-nothing) fails on the implementation: %s" % why, dict(kind="monitor", trial=how, why=why)); found = True
    ctx.cov["correspondence"]["put-atomicity"] = dict(trials=ntr, kinds=kinds)
    ctx.cov["evaluations"] += nops + ntr; ctx.cov["distinct_nontrivial"] += nops
    ctx.cov["rule"] = ("random sequences of 8-30 PUT/DELETE/MKCOL/COPY/MOVE over names {a,b,c,d1,d2,x.txt,sub} to depth 3 with Overwrite T/F, Depth 0/infinity, Destination spelled plainly, "
                       "with dot segments, percent-encoded, or as absolute URI, destinations equal to / below the source; after every request the directory is compared with the "
                       "specification's tree (names, kinds, contents) and the status class with done/refused; a file beside the root must stay untouched; large PUTs over an existing "
                       "file cut by client abort or SIGKILL at a random byte, with a concurrent reader; non-trivial = operations applied")
    if not ok and not found:
        ctx.proof_broken_violation()


def replay(ctx, path):
    import shutil
    obj = json.load(open(path)); rp = obj["replay"]
    if "ops" not in rp:
        print(rp); shutil.rmtree(ctx.scratch, ignore_errors=True); return 1
    ops = []
    for o in rp["ops"]:
        o = list(o)
        if o[0] == "put": o[2] = o[2].encode("latin-1")
        ops.append(tuple(o))
    model = vlib.model_driver("C18")
    res, crashed, log = run_sequence(ctx, "replay", ops, model)
    print("monitor:", res, "crashed:", crashed)
    shutil.rmtree(ctx.scratch, ignore_errors=True)
    return 1 if (res or crashed) else 0
