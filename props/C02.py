"""C02 -- no request reaches a filesystem object outside the configured roots.
Model: coq/Url/*.v ; harness: harness/url_h.c (+ harness/roots_h.c for alias/vhost/x-sendfile)"""
import itertools, os
import vlib, roots
from vlib import hx, unhx

LINK = vlib.COMMON_SRC

F = dict(NORM=8, UNRES=16, REQD=32, CTRLS=64, BSL=128, D2F=256, R2F=512, DSREM=1024, DSREJ=2048, Q20=4096, UTF8=8192)
DEFAULT = F["NORM"] | F["UNRES"] | F["CTRLS"] | F["D2F"] | F["DSREM"] | F["UTF8"]


def flag_sets():
    out = [0]
    for base in (F["UNRES"], F["REQD"]):
        for ctr in (0, F["CTRLS"]):
            for f2 in (0, F["D2F"], F["R2F"]):
                for ds in (0, F["DSREM"], F["DSREJ"]):
                    for q in (0, F["Q20"]):
                        for u in (0, F["UTF8"]):
                            out.append(F["NORM"] | base | ctr | f2 | ds | q | u)
    return out


ALPHA = [b"/", b".", b"%", b"2", b"e", b"E", b"f", b"F", b"5", b"c", b"\\", b"?", b"#", b"a", b"\x00", b"\x01", b"\x7f", b"\x80"]
ALPHA_S = [b"/", b".", b"a", b"\x00", b"%", b"2", b"F", b"e"]


def all_strings(alpha, maxlen):
    for n in range(0, maxlen + 1):
        for t in itertools.product(alpha, repeat=n):
            yield b"".join(t)


TRAVERSAL = [b"/../etc/passwd", b"/a/../../etc/passwd", b"/%2e%2e/%2e%2e/etc/passwd", b"/a/%2e%2e%2f%2e%2e%2fetc", b"/..%2f..%2fetc/passwd",
             b"/a/..%5c..%5cetc", b"/a/./../..//b", b"/a/%2E/./%2e%2E/x", b"/.%2e/x", b"/%2e./x", b"/a/..;/x", b"/a/.%00./x", b"/a/..%00/x",
             b"/a/%252e%252e/x", b"/a/..\x00/b", b"/a?/../b", b"/a?x?/../../b", b"/a%3f/../b", b"/a#/../b", b"/a/%2e%2e", b"/a/..", b"/..", b"/.",
             b"//..//..//x", b"/a/b/../../../c", b"/%c0%ae%c0%ae/x", b"/a/%ff/../x", b"..", b"../x", b"./x", b"a/../..", b"*", b"", b"?",
             b"/a/.../b", b"/a/..a/b", b"/a/.a/..", b"/a%2f..%2f..%2fb", b"/a%2F%2e%2e%2F%2E%2E%2Fb", b"/a/b%2f%2e%2e", b"/%2f%2f", b"/a/%2f../x"]


def mutate(rng, s):
    s = bytearray(s)
    for _ in range(rng.randrange(1, 4)):
        op = rng.randrange(6)
        pos = rng.randrange(0, len(s) + 1)
        tok = rng.choice([b"/", b".", b"..", b"../", b"./", b"%2e", b"%2E", b"%2f", b"%2F", b"%5c", b"%00", b"%", b"?", b"#", b"\\", b"\x00", b"%25", b"%3f", b"a", b"//", b"/.", b"%7f", b"%1f", b"\xff", b"+", b"%20"])
        if op <= 2: s[pos:pos] = tok
        elif op == 3 and s: del s[rng.randrange(len(s))]
        elif op == 4 and s: s[rng.randrange(len(s))] = rng.randrange(256)
        else: s[pos:pos] = s[max(0, pos - 4):pos]
    return bytes(s)


def gen_cases(ctx):
    rng = ctx.rng
    thorough = ctx.tier == "thorough"
    fs = flag_sets()
    cases = []
    dist = {}
    # (1) exhaustive short targets: '/'+w and w for |w| <= 3 (quick) / 4 (thorough) x all flag sets
    n1 = 4 if thorough else 3
    words = list(all_strings(ALPHA, n1))
    hexw = [(hx(b"/" + w), hx(w)) for w in words]
    for fl in fs:
        p = "T %d " % fl
        cases += [p + a for a, _ in hexw]
        if fl in (0, DEFAULT, DEFAULT ^ F["UNRES"] ^ F["REQD"]):
            cases += [p + b for _, b in hexw]
    dist["exhaustive_T_len<=%d_x_%d_flagsets" % (n1 + 1, len(fs))] = len(cases)
    # (2) longer exhaustive over the default and 5 other flag sets
    n2 = 5 if thorough else 4
    k0 = len(cases)
    sel = [DEFAULT, 0, DEFAULT | F["Q20"], F["NORM"] | F["REQD"] | F["D2F"] | F["DSREM"], F["NORM"] | F["UNRES"], F["NORM"] | F["REQD"] | F["CTRLS"] | F["R2F"] | F["DSREJ"] | F["UTF8"]]
    for w in all_strings(ALPHA, n2):
        if len(w) == n2:
            h = hx(b"/" + w)
            for fl in sel:
                cases.append("T %d %s" % (fl, h))
    dist["exhaustive_T_len=%d_x_6_flagsets" % (n2 + 1)] = len(cases) - k0
    # (3) simplify / urldecode exhaustively on their own alphabet (incl. relative and NUL)
    k0 = len(cases)
    n3 = 8 if thorough else 7
    for w in all_strings([b"/", b".", b"a", b"\x00"], n3):
        cases.append("S " + hx(w))
    for w in all_strings([b"%", b"2", b"f", b"G", b"\x00", b"7", b"F", b"a"], 6 if thorough else 5):
        cases.append("U " + hx(w))
    dist["exhaustive_S_U"] = len(cases) - k0
    # (4) traversal corpus + mutations, all flag sets
    k0 = len(cases)
    for t in TRAVERSAL:
        for fl in fs:
            cases.append("T %d %s" % (fl, hx(t)))
    for _ in range(200000 if thorough else 30000):
        t = mutate(rng, rng.choice(TRAVERSAL))
        cases.append("T %d %s" % (rng.choice(fs), hx(t)))
        if rng.random() < 0.2:
            cases.append("N %d %s" % (rng.choice(fs[1:]), hx(t)))
    dist["traversal_mutations"] = len(cases) - k0
    # (5) docroot join
    k0 = len(cases)
    for root in (b"/srv/www", b"/srv/www/", b"/", b"", b"/srv//"):
        for rel in (b"/a", b"a", b"/", b"", b"//a", b"/a/"):
            cases.append("J %s %s" % (hx(root), hx(rel)))
    dist["join"] = len(cases) - k0
    ctx.cov["distribution"]["url"] = dist
    return cases


def segs(p):
    return p.split(b"/")


def monitor(case, impl_line):
    """C02 on one observation: the path derived from a URL is absolute and has no '.'/'..' segment
    (so root + path stays lexically under root)."""
    t = case.split()
    o = impl_line.split()
    try:
        if t[0] == "T":
            if o[0] != "0":
                return None
            path = unhx(o[2])
            if not path.startswith(b"/"):
                return "accepted target yields non-absolute path %r" % path
            if any(s in (b".", b"..") for s in segs(path)):
                return "accepted target yields path with dot segment %r" % path
            if b"\x00" in path and b"\x00" not in unhx(t[2]):
                return "decoding produced a path with embedded NUL %r (C consumers truncate it)" % path
            root = b"/srv/www"
            phys = os.path.normpath((root + path).decode("latin-1")).encode("latin-1")
            if not (phys == root or phys.startswith(root + b"/")):
                return "physical path %r escapes docroot" % phys
        elif t[0] == "S":
            inp = unhx(t[1]); out = unhx(o[0])
            if inp.startswith(b"/") and (not out.startswith(b"/") or any(s in (b".", b"..") for s in segs(out))):
                return "simplify(%r) = %r keeps a dot segment or loses the root" % (inp, out)
            if len(out) > len(inp):
                return "simplify output longer than input"
        elif t[0] == "U":
            inp = unhx(t[1]); out = unhx(o[0])
            if len(out) > len(inp):
                return "urldecode output longer than input"
    except Exception as e:
        return "harness output malformed (%s): %r" % (type(e).__name__, impl_line[:200])
    return None


def describe(case):
    t = case.split()
    if t[0] in "TN":
        return "%s(flags=0x%x, target=%r)" % ("http_request_parse_target" if t[0] == "T" else "burl_normalize", int(t[1]), unhx(t[2]))
    if t[0] == "J":
        return "buffer_copy_path_len2(%r, %r)" % (unhx(t[1]), unhx(t[2]))
    return "%s(%r)" % ("buffer_path_simplify" if t[0] == "S" else "buffer_urldecode_path", unhx(t[1]))


def correspond(ctx, pid, harness, modelpid, cases, monitor_fn, describe_fn, label, link=LINK):
    """Shared by C02/C03: run impl and model on the cases, classify disagreements with the monitor."""
    exe = vlib.cc_harness(ctx, harness, link_srcs=link, sanitize=(ctx.tier == "thorough"))
    model = vlib.model_driver(modelpid)
    rc_i, out_i, err_i = vlib.run_lines_sharded(exe, cases)
    rc_m, out_m, err_m = vlib.run_lines_sharded(model, cases)
    ctx.cov["evaluations"] += len(cases)
    if rc_i != 0:
        ctx.violate(label + "-harness-crash", "%s harness exited with %d: %s" % (harness, rc_i, err_i[-800:]),
                    dict(kind="crash", stderr=err_i[-3000:]))
    n = min(len(cases), len(out_i), len(out_m))
    if n < len(cases):
        ctx.violate(label + "-short-output", "%s/%s produced %d/%d lines for %d cases" % (harness, modelpid, len(out_i), len(out_m), len(cases)),
                    dict(kind="line-count", first_unanswered=describe_fn(cases[n]) if n < len(cases) else None))
    dis = [i for i in range(n) if out_i[i] != out_m[i]]
    ctx.cov["correspondence"][label] = dict(cases=len(cases), disagreements=len(dis))
    found = False
    reported = 0
    for i in sorted(dis, key=lambda i: len(cases[i]))[:5000]:
        why = monitor_fn(cases[i], out_i[i])
        if why:
            found = True
            if reported < 3:
                ctx.violate("%s:%s" % (label, cases[i][:60]), "%s fails on the implementation: %s; input %s" % (pid, why, describe_fn(cases[i])),
                            dict(kind="monitor", case=cases[i], input=describe_fn(cases[i]), impl=out_i[i], model=out_m[i], why=why, harness=harness))
                reported += 1
    if dis and not found:
        i = min(dis, key=lambda i: len(cases[i]))
        ctx.violate(label + "-correspondence", "code no longer computes the model's function (correspondence %s broken), e.g. %s: impl=%s model=%s"
                    % (label, describe_fn(cases[i]), out_i[i][:160], out_m[i][:160]),
                    dict(kind="correspondence", correspondence=label, case=cases[i], input=describe_fn(cases[i]), impl=out_i[i], model=out_m[i],
                         disagreements=len(dis)), no_input=True)
    # the monitor also runs over every implementation output (cheap), guarding the model itself
    bad = 0
    for i in range(n):
        if out_i[i] == out_m[i]:
            why = monitor_fn(cases[i], out_i[i])
            if why:
                found = True
                if bad < 3:
                    ctx.violate("%s:%s" % (label, cases[i][:60]), "%s fails on the implementation (and on the faithful model): %s; input %s" % (pid, why, describe_fn(cases[i])),
                                dict(kind="monitor", case=cases[i], input=describe_fn(cases[i]), impl=out_i[i], why=why, harness=harness))
                bad += 1
    return out_i, out_m, found


def run(ctx):
    ok = ctx.prove()
    cases = []
    cp = os.path.join(vlib.VERIF, "corpus", "C02.txt")
    if os.path.exists(cp):
        cases += [l.strip() for l in open(cp) if l.strip() and not l.startswith("#")]
    cases += gen_cases(ctx)
    out_i, out_m, found = correspond(ctx, "C02", "url_h", "C02", cases, monitor, describe, "url-pipeline")
    ctx.cov["distinct_nontrivial"] += len(set(c for c, o in zip(cases, out_i) if o != "400" and o != "-2"))
    ctx.cov["rule"] = ("targets: exhaustive '/'+w and w over the 18-symbol metacharacter alphabet {/ . % 2 e E f F 5 c \\ ? # a NUL 0x01 0x7f 0x80} "
                       "x 145 http-parseopts sets, longer exhaustive under 6 sets, simplify/urldecode exhaustive over {/ . a NUL}/{% 2 f G NUL 7 F a}, "
                       "mutated traversal corpus; non-trivial = target accepted (a path was derived); distinct = distinct input lines")
    ctx.add_samples([dict(case=describe(c), impl=o) for c, o in list(zip(cases, out_i))[:: max(1, len(cases) // 6)]])
    # mapping stages behind the URL pipeline: alias, vhost, evhost, userdir, symlink walk (in-process), then the assembled server
    ucases = roots.gen_unit_cases(ctx)
    out_i2, _, found2 = correspond(ctx, "C02", "roots_h", "ROOTS", ucases, roots.monitor_unit, roots.describe_unit, "roots-unit", link=roots.LINK)
    ctx.cov["distinct_nontrivial"] += len(set(c for c, o in zip(ucases, out_i2) if o.split()[:1] not in (["N"], ["X"], ["?"])))
    ctx.add_samples([dict(case=roots.describe_unit(c)[:300], impl=o[:200]) for c, o in list(zip(ucases, out_i2))[:: max(1, len(ucases) // 4)]])
    found3 = roots.run_system(ctx)
    found = found or found2 or found3
    ctx.cov["rule"] += ("; mapping stages: mod_alias_remap over every tail of length <= 5 after each alias key, simple-vhost/evhost path construction over hosts up to length 4-6 from {a b . : 1 / 8}, "
                        "userdir over names up to length 4, symlink walk over random lstat tables; system: 15 server configurations (alias x3 parseopts, simple-vhost x3, evhost x6, userdir x2, "
                        "follow-symlink off) with debug.log-request-handling compared line by line with the model's uri.path/doc_root/basedir/physical.path, X-Sendfile (CGI) and X-Sendfile2 (FastCGI) "
                        "values, WebDAV COPY/MOVE Destination spellings judged by where the bytes land")
    if not ok and not found:
        ctx.proof_broken_violation()


def replay(ctx, path):
    import json, shutil
    obj = json.load(open(path))
    if obj["replay"].get("kind") in ("system", "crash"):
        # a finding on the running server: run the server scenarios again and say whether the same class of violation is still there
        ctx.cov.setdefault("distribution", {})
        roots.run_system(ctx)
        same = [v for v in ctx.violations if v[0].split(":")[:2] == obj["key"].split(":")[:2]]
        print("recorded:", obj["what"]); print("now     :", same[0][1] if same else "not reproduced")
        shutil.rmtree(ctx.scratch, ignore_errors=True)
        return 1 if same else 0
    case = obj["replay"].get("case")
    hn = obj["replay"].get("harness", "url_h")
    exe = vlib.cc_harness(ctx, hn, link_srcs=roots.LINK if hn == "roots_h" else LINK)
    model = vlib.model_driver("ROOTS" if hn == "roots_h" else "C02")
    _, oi, _ = vlib.run_lines(exe, [case]); _, om, _ = vlib.run_lines(model, [case])
    mon, desc = (roots.monitor_unit, roots.describe_unit) if hn == "roots_h" else (monitor, describe)
    print("input:", desc(case)); print("impl :", oi); print("model:", om); print("monitor:", mon(case, oi[0]) if oi else None)
    shutil.rmtree(ctx.scratch, ignore_errors=True)
    return 0 if oi == om and not (oi and mon(case, oi[0])) else 1
