"""C12 -- untrusted input never causes undefined behaviour, abort or unbounded growth.
Theorem side: coq/Safe/SafeProofs.v over capacities and guards re-read from the source each run (tools/c2v_safe.py -> coq/Gen/GenSafe.v).
Search side (this file): the harnesses of the URL and Range models built with AddressSanitizer + UndefinedBehaviorSanitizer on inputs
aimed at the proved limits, and the real server fed malformed HTTP/1.x, HTTP/2 and backend streams (sanitizer build in the thorough
tier), which must stay alive, keep answering a health probe and keep its memory bounded."""
import json, os, re, socket, struct, sys, time
import vlib, srv, h2c, backend
from vlib import hx


def url_cases(rng, n):
    """burl_normalize / parse_target inputs: long clean prefixes followed by bytes that must be re-encoded"""
    out = []
    tails = [b'"', b"<x>", b"%7e", b"\xe9\xff", b"%41%2f%2F", b" a b ", b"{}|\\^`", b"%zz%", b"?q=\"<>&%20", b"#frag\"", b"%c0%ae", b"\x7f\x01"]
    for L in [0, 1, 2, 7, 15, 16, 17, 31, 32, 33, 60, 63, 64, 65, 100, 127, 128, 129, 255, 256, 257, 500, 1000, 1023, 1024, 1025, 2000, 4000, 4095, 4096, 4097, 8000, 16000, 33000]:
        for t in tails:
            pre = b"/" + (b"a" * L)
            for flags in (9560, 9464, 9560 | 32):
                out.append("N %d %s" % (flags, hx(pre + t * rng.choice([1, 1, 3, 40]))))
                out.append("T %d %s" % (flags, hx(pre + t)))
    for _ in range(n):
        L = rng.choice([rng.randrange(0, 70), rng.randrange(0, 5000)])
        body = bytes(rng.choice(b"abc/%.\"<>?#&= \xe9\x00~+;") for _ in range(rng.randrange(0, 60)))
        out.append("%s %d %s" % (rng.choice("NT"), rng.choice([9560, 9464, 0, 8 | 16, 8 | 32 | 256 | 1024]), hx(b"/" + b"b" * L + body)))
    return out


def range_cases(rng, n):
    """Range headers with counts around RMAX (128) and RMAX_UNSORTED (10), ascending with gaps > 80 so nothing is merged"""
    out = []
    content = hx(b"R" * 40000)
    def r_line(rv): return "R 1100 200 0 ~ %s ~ ~ ~ %s %s f" % (hx(rv), hx(b"text/plain"), content)
    for k in [1, 2, 9, 10, 11, 12, 100, 126, 127, 128, 129, 130, 131, 200, 300]:
        asc = b"bytes=" + b",".join(b"%d-%d" % (i * 100, i * 100) for i in range(k))
        out.append(r_line(asc)); out.append("P 40000 " + hx(asc))
        desc = b"bytes=" + b",".join(b"%d-%d" % (i * 100, i * 100) for i in reversed(range(k)))
        out.append(r_line(desc)); out.append("P 40000 " + hx(desc))
        mix = b"bytes=" + b",".join(b"%d-%d" % (((i * 37) % k) * 100, ((i * 37) % k) * 100 + 5) for i in range(k))
        out.append(r_line(mix))
    for _ in range(n):
        k = rng.choice([1, 3, 11, 129, 140])
        parts = []
        for i in range(k):
            a = rng.randrange(0, 45000); parts.append(rng.choice([b"%d-%d" % (a, a + rng.randrange(0, 300)), b"%d-" % a, b"-%d" % rng.randrange(0, 50000), b"x", b"", b"%d-%d" % (a + 5, a)]))
        out.append(r_line(b"bytes=" + rng.choice([b",", b", ", b" ,"]).join(parts)))
    return out


def server_fuzz(ctx, sanitize, n):
    """malformed HTTP/1.x and HTTP/2 streams and broken backends against the real server; returns (why, stats)"""
    be = backend.HttpBackend()
    rng = ctx.rng
    for sid in range(1, 40):
        junk = bytes(rng.randrange(256) for _ in range(rng.randrange(0, 200)))
        be.script(sid, [(rng.choice([b"HTTP/1.1 200 OK\r\nContent-Length: 99999999999999999999\r\n\r\n", b"HTTP/1.1 200 OK\r\nTransfer-Encoding: chunked\r\n\r\nffffffffffffffffffff\r\n",
                                     b"HTTP/1.1 200 OK\r\nTransfer-Encoding: chunked\r\n\r\n7fffffffffffffff\r\nx", b"HTTP/1.1 200 OK\r\n" + b"X: y\r\n" * 3000 + b"\r\n", b"HTTP/9.9 999\r\n\r\n",
                                     b"HTTP/1.1 200 OK\r\n" + b"A" * 70000 + b": v\r\n\r\n", junk, b"HTTP/1.1 100 Continue\r\n\r\n" * 50 + b"HTTP/1.1 200 OK\r\nContent-Length: 0\r\n\r\n"]), 0)], "close")
    s = srv.Server(ctx, "fuzz" + ("-asan" if sanitize else ""), 'server.feature-flags = ("server.h2proto" => "enable", "server.h2c" => "enable")\nserver.max-request-field-size = 8192\n'
                   'proxy.server = ("/px/" => (("host" => "127.0.0.1", "port" => %d, "disable-time" => 0)))\n' % be.port,
                   files={"/ok.txt": b"ok\n", "/big.bin": b"z" * 300000}, modules=["mod_proxy"], sanitize=sanitize).start()
    why = None; sent = 0
    def rss():
        if s.proc is None: return 0
        try:
            for l in open("/proc/%d/status" % s.proc.pid):
                if l.startswith("VmRSS:"): return int(l.split()[1])
        except OSError: return 0
        return 0
    def fds():
        if s.proc is None: return 0
        try: return len(os.listdir("/proc/%d/fd" % s.proc.pid))
        except OSError: return 0
    try:
        time.sleep(0.2); rss0 = rss(); fd0 = fds()
        seeds = [b"GET /ok.txt HTTP/1.1\r\nHost: h\r\n\r\n", b"POST /px/r?id=3 HTTP/1.1\r\nHost: h\r\nTransfer-Encoding: chunked\r\n\r\n5\r\nhello\r\n0\r\n\r\n",
                 b"GET /big.bin HTTP/1.1\r\nHost: h\r\nRange: bytes=" + b",".join(b"%d-%d" % (i * 100, i * 100) for i in range(140)) + b"\r\n\r\n",
                 b"GET /" + b"a" * 3000 + b"\"<> HTTP/1.1\r\nHost: h\r\n\r\n", b"GET /ok.txt HTTP/1.1\r\nHost: h\r\nIf-Modified-Since: " + b"9" * 200 + b"\r\n\r\n",
                 b"POST /px/r?id=5 HTTP/1.1\r\nHost: h\r\nTransfer-Encoding: chunked\r\n\r\n" + b"f" * 17 + b"\r\n", b"GET /ok.txt HTTP/1.1\r\nHost: h\r\nContent-Length: 18446744073709551616\r\n\r\n"]
        pre = b"PRI * HTTP/2.0\r\n\r\nSM\r\n\r\n"
        for it in range(n):
            k = rng.random()
            if k < 0.45:
                d = bytearray(rng.choice(seeds))
                for _ in range(rng.choice([0, 1, 2, 5])):
                    op = rng.randrange(4); p = rng.randrange(len(d) + 1)
                    if op == 0 and d: d[p % len(d)] = rng.randrange(256)
                    elif op == 1: d[p:p] = bytes(rng.randrange(256) for _ in range(rng.choice([1, 3, 200])))
                    elif op == 2 and d: del d[p % len(d):(p % len(d)) + rng.choice([1, 5, 50])]
                    else: d[p:p] = rng.choice([b"\r\n", b"\0", b"%", b":", b" " * 100, b"\x80\xff"])
                raw = bytes(d)
            elif k < 0.55:
                raw = b"GET /px/r?id=%d HTTP/1.1\r\nHost: h\r\nConnection: close\r\n\r\n" % rng.randrange(1, 40)
            else:
                # HTTP/2: preface, then frames with random types, flags, stream ids, lengths that lie, HPACK junk
                raw = pre + h2c.frame(4, 0, 0)
                for _ in range(rng.choice([1, 2, 5, 20])):
                    typ = rng.choice([0, 1, 1, 2, 3, 4, 5, 6, 7, 8, 9, rng.randrange(256)]); fl = rng.choice([0, 1, 4, 5, 8, 0x20, 0x2d, rng.randrange(256)]); sid = rng.choice([0, 1, 1, 3, 2, 0x7fffffff, rng.randrange(1 << 31)])
                    pl = rng.choice([b"", bytes(rng.randrange(256) for _ in range(rng.choice([1, 4, 5, 8, 9, 64, 300]))), b"\x82\x86\x84\x41\x01h", b"\xff" * 20, b"\x3f\xe1\xff\xff\xff\x0f", b"\x7f" + b"\xff" * 12])
                    f = h2c.frame(typ, fl, sid, pl)
                    if rng.random() < 0.1: f = struct.pack(">I", rng.choice([1 << 14, (1 << 24) - 1, len(pl) + 3]))[1:] + f[3:]
                    raw += f
            try:
                so = s.connect(timeout=1.0); so.sendall(raw)
                if rng.random() < 0.5:
                    try: so.recv(65536)
                    except OSError: pass
                so.close()
            except OSError: pass
            sent += 1
            if it % 25 == 24 or it == n - 1:
                if not s.alive():
                    rcx = s.stop()
                    why = "lighttpd died (exit status %s) after input %r...: %s" % (rcx, raw[:80], getattr(s, "out", "")[-1200:]); break
                try: ok = b"ok\n" in s.roundtrip(b"GET /ok.txt HTTP/1.1\r\nHost: h\r\nConnection: close\r\n\r\n", timeout=5.0)
                except OSError: ok = False
                if not ok: why = "the server stopped answering a plain request after %d malformed streams (last: %r...)" % (sent, raw[:80]); break
        time.sleep(0.5)
        rss1 = rss(); fd1 = fds()
        if why is None and rss0 and rss1 > 6 * rss0 + 200000: why = "resident memory grew from %d kB to %d kB over %d malformed streams" % (rss0, rss1, sent)
        if why is None and fd1 > fd0 + 40: why = "%d more descriptors open after %d malformed streams (and no client connected)" % (fd1 - fd0, sent)
        stats = dict(streams=sent, rss_kb=[rss0, rss1], fds=[fd0, fd1])
    finally:
        rc = s.stop(); be.stop()
    if why is None and rc in (98, 99): why = "a sanitizer stopped lighttpd: %s" % (getattr(s, "out", "")[-1500:])
    return why, stats if "stats" in dir() else {}, (getattr(s, "out", "") + s.log())[-2000:]


def run(ctx):
    ok = ctx.prove()
    found = False
    # sanitized unit harnesses on limit-aimed inputs
    for name, cases in (("url_h", url_cases(ctx.rng, 300 if ctx.tier == "quick" else 5000)), ("range_h", range_cases(ctx.rng, 100 if ctx.tier == "quick" else 3000))):
        exe = vlib.cc_harness(ctx, name, link_srcs=vlib.COMMON_SRC, sanitize=True)
        rc, out, err = vlib.run_lines(exe, cases, env=vlib.HARNESS_ENV)
        ctx.cov["correspondence"]["sanitized-" + name] = dict(cases=len(cases), answered=len(out), exit=rc)
        ctx.cov["evaluations"] += len(cases)
        if rc != 0 or len(out) != len(cases):
            k = min(len(out), len(cases) - 1)
            ctx.violate("c12:sanitizer:" + name, "C12 fails on the implementation: %s (ASan+UBSan build) stopped at input %s...: %s" % (name, cases[k][:120], err[-700:]),
                        dict(kind="sanitizer", harness=name, case=cases[k], stderr=err[-3000:])); found = True
    why, stats, log = server_fuzz(ctx, ctx.tier == "thorough", 400 if ctx.tier == "quick" else 6000)
    ctx.cov["correspondence"]["server-malformed-streams"] = stats
    ctx.cov["evaluations"] += stats.get("streams", 0); ctx.cov["distinct_nontrivial"] += stats.get("streams", 0)
    if why:
        ctx.violate("c12:server:" + re.sub(r"\d+|b'.*", "#", why)[:50], "C12 fails on the implementation: %s" % why, dict(kind="server", why=why, log=log)); found = True
    ctx.cov["rule"] = ("ASan+UBSan builds of the URL harness (clean prefixes of 0..33000 bytes followed by bytes that must be re-encoded, three parse-option sets) and the Range harness "
                       "(1..300 ascending / descending / shuffled ranges around RMAX and RMAX_UNSORTED through http_range_rfc7233 with its own stack array); the real server "
                       "(sanitizer build in the thorough tier) on mutated HTTP/1.x requests, random HTTP/2 frame sequences with lying lengths and HPACK junk, and backends "
                       "answering with overflowing lengths / giant heads; it must stay alive, answer a probe, and keep memory and descriptors bounded")
    if not ok and not found:
        ctx.proof_broken_violation()


def replay(ctx, path):
    import shutil
    obj = json.load(open(path)); rp = obj["replay"]
    if rp.get("kind") == "sanitizer":
        exe = vlib.cc_harness(ctx, rp["harness"], link_srcs=vlib.COMMON_SRC, sanitize=True)
        rc, out, err = vlib.run_lines(exe, [rp["case"]], env=vlib.HARNESS_ENV)
        print("exit", rc, err[-800:]); shutil.rmtree(ctx.scratch, ignore_errors=True); return 1 if rc != 0 else 0
    ctx.rng.seed(obj.get("seed", 1)); run(ctx); n = len(ctx.violations)
    shutil.rmtree(ctx.scratch, ignore_errors=True)
    return 1 if n else 0
