"""C16 -- Auth: only valid credentials of an authorized user open a protected URL.
Model: coq/Auth/*.v ; harness: harness/auth_h.c + auth_b.c (mod_auth.c, mod_auth_api.c, mod_authn_file.c, base64.c, ck.c,
algo_splaytree.c of the working tree; requests go through mod_auth_uri_handler, time through mod_auth_periodic).
The monitor is written from the property text: it knows the user database at every moment, which rule covers a path, and how an
RFC 7617 / RFC 7616 client computes credentials; every request it built to be invalid must be refused."""
import base64, hashlib, json, os, re, struct
import vlib
from vlib import hx, unhx

LINK = vlib.COMMON_SRC + ["mod_auth_api.c"]
T0_EPOCH, T0_MONO = 1700000000, 1000000
NONCE_LIFE = 600


def md5hex(b):
    return hashlib.md5(b).hexdigest().encode()


# ------------------------------------------------------------------ case construction
class World:
    """what the generator (and later the monitor) knows: rules, database, clocks"""
    def __init__(self, rules, cache):
        self.rules = rules; self.cache = cache
        self.db = []; self.epoch = T0_EPOCH; self.mono = T0_MONO

    def pw(self, user):
        for u, p in self.db:
            if u == user: return p
        return None

    def rule_for(self, path):
        for i, r in enumerate(self.rules):
            if path.startswith(r["path"]): return i, r
        return None, None


def authorized(rule, user):
    return rule["require"] == b"valid-user" or user in [x[5:] for x in rule["require"].split(b"|") if x.startswith(b"user=")]


def mk_nonce(ts, rnd, secret):
    tsb = struct.pack("<Q", ts % (1 << 64)); rb = struct.pack("<I", rnd)
    def ux(v):           # buffer_append_uint_hex(): whole bytes
        h = b"%x" % v
        return h if len(h) % 2 == 0 else b"0" + h
    if secret is None:
        return ux(ts % (1 << 64)) + b":" + md5hex(tsb + rb)
    return ux(ts % (1 << 64)) + b":" + ux(rnd) + b":" + md5hex(tsb + rb + secret)


def digest_header(rng, user, realm, pw, method, uri, nonce, qop=None, algo=None, style=0, tweak=None):
    """an RFC 7616 client; `tweak` names the one thing done wrong (or None)"""
    cnonce = b"c%06x" % rng.randrange(1 << 24); nc = b"%08x" % rng.randrange(1, 9)
    ha1 = md5hex(user + b":" + realm + b":" + pw)
    if algo and algo.lower().endswith(b"-sess"):
        ha1 = md5hex(ha1 + b":" + nonce + b":" + cnonce)
    ha2 = md5hex(method + b":" + uri)
    if qop:
        resp = md5hex(ha1 + b":" + nonce + b":" + nc + b":" + cnonce + b":" + qop + b":" + ha2)
    else:
        resp = md5hex(ha1 + b":" + nonce + b":" + ha2)
    if tweak == "resp-flip":
        k = rng.randrange(32); resp = resp[:k] + (b"0" if resp[k:k + 1] != b"0" else b"1") + resp[k + 1:]
    if tweak == "resp-short": resp = resp[:31]
    if tweak == "resp-long": resp = resp + b"0"
    if tweak == "resp-nonhex": resp = resp[:10] + b"g" + resp[11:]
    if tweak == "resp-upper": resp = resp.upper()
    P = [(b"username", user, True), (b"realm", realm, True), (b"nonce", nonce, True), (b"uri", uri, True), (b"response", resp, True)]
    if qop or (algo and algo.lower().endswith(b"-sess")):
        if qop: P += [(b"qop", qop, style & 1 == 0), (b"nc", nc, False)]
        if tweak != "no-cnonce": P += [(b"cnonce", cnonce, True)]
        elif qop: P = [p for p in P if p[0] != b"nc"]
    if algo: P += [(b"algorithm", algo, style & 2 == 2)]
    if tweak and tweak.startswith("drop-"):
        P = [p for p in P if p[0] != tweak[5:].encode()]
    if tweak == "unterminated":
        P = [p for p in P if p[0] != b"username"] + [(b"username", user, None)]
    if style & 4: rng.shuffle(P)
    sep = b", " if style & 8 == 0 else b","
    out = []
    for k, v, quoted in P:
        if quoted is None: out.append(k + b'="' + v)
        elif quoted: out.append(k + b'="' + v + b'"')
        else: out.append(k + b"=" + v)
    pre = b"Digest " if style & 16 == 0 else rng.choice([b"digest ", b"DIGEST "])
    return pre + sep.join(out)


def basic_header(rng, user, pw, tweak=None):
    raw = user + b":" + pw
    if tweak == "no-colon": raw = user + pw
    b = base64.b64encode(raw)
    if tweak == "bad-b64": b = b"!" + b[1:]
    if tweak == "ws-b64": b = b[:2] + b" " + b[2:]          # tolerated by the decoder: still the same credentials
    if tweak == "empty": b = b""
    if tweak == "too-long": b = base64.b64encode(user + b":" + pw + b"x" * 1100)
    pre = b"Basic "
    if tweak == "lc": pre = b"basic "
    if tweak == "no-space": pre = b"Basic"
    if tweak == "other-scheme": pre = b"Basicx "
    return pre + b


USERS = [b"alice", b"bob", b"carol", b"dave"]
PWS = [b"secret", b"hunter2", b"pa:ss", b"", b"Secret", b"secret1", b"x" * 40]
DIGEST_BAD = ["wrongpw", "unknownuser", "unauthorized", "wrongrealm", "uri-other", "uri-prefix", "uri-longer", "method-other", "stale", "stale-edge",
              "future", "signbit", "nonce-forged", "nonce-norand", "nonce-lz", "resp-flip", "resp-short", "resp-long", "resp-nonhex",
              "drop-realm", "drop-nonce", "drop-uri", "drop-response", "drop-username", "auth-int", "no-cnonce", "algo-sha", "algo-junk",
              "unterminated", "basic-at-digest", "none", "other-rule-nonce", "emptyuser"]
BASIC_BAD = ["wrongpw", "unknownuser", "unauthorized", "pw-prefix", "pw-ext", "user-case", "no-colon", "bad-b64", "empty", "too-long", "no-space",
             "other-scheme", "digest-at-basic", "none", "emptypw", "nul-user"]


def gen_world(rng):
    nr = rng.choice([1, 2, 2, 3, 3, 4])
    rules = []
    for i in range(nr):
        dig = rng.random() < 0.5
        rules.append(dict(path=b"/p%d/" % i, method=(b"digest" if dig else b"basic"), realm=rng.choice([b"R1", b"R2", b"Realm One"]),
                          require=rng.choice([b"valid-user", b"valid-user", b"user=alice", b"user=alice|user=bob", b"user=bob"]),
                          algo=(rng.choice([None, None, b"MD5", b"MD5-sess", b"MD5|MD5-sess"]) if dig else None),
                          secret=(rng.choice([None, None, b"s3cr3t", b"k"]) if dig else None)))
    cache = rng.choice([None, None, 3, 10, 10, 30, 600, 0])
    return World(rules, cache)


def gen_history(rng, tier):
    w = gen_world(rng)
    ops = []
    def setdb():
        n = rng.randrange(1, 4)
        us = rng.sample(USERS, n)
        w.db = [(u, rng.choice(PWS)) for u in us]
        ops.append(dict(op="db", db=list(w.db)))
    setdb()
    ncoll = 0
    nops = rng.randrange(4, 14 if tier == "quick" else 22)
    recent = []        # (rule index, user, pw, header kind) of valid requests made, for replays after changes
    for _ in range(nops):
        x = rng.random()
        if x < 0.10:
            if rng.random() < 0.5 and w.db:    # change one password / remove one user
                k = rng.randrange(len(w.db)); u, p = w.db[k]
                if rng.random() < 0.3: w.db = w.db[:k] + w.db[k + 1:]
                else: w.db = w.db[:k] + [(u, rng.choice([q for q in PWS if q != p]))] + w.db[k + 1:]
                ops.append(dict(op="db", db=list(w.db)))
            else: setdb()
        elif x < 0.25:
            ma = w.cache if w.cache is not None else 10
            d = rng.choice([1, 1, 2, 5, 8, 9, max(1, ma - 1), ma + 1, ma + 8, ma + 9, 60, 539, 541, 599, 600, 601])
            if tier == "quick" and d > 100 and rng.random() < 0.5: d = rng.choice([1, 8, 16])
            w.epoch += d; w.mono += d
            ops.append(dict(op="t", n=d))
        elif x < 0.28:
            d = rng.choice([-5, -700, 5, 700, -1])
            w.epoch += d
            ops.append(dict(op="sk", d=d))
        elif x < 0.33 and w.cache is not None and ncoll < 2:
            bi = [i for i, r in enumerate(w.rules) if r["method"] == b"basic"]
            if not bi: continue
            ri = rng.choice(bi); pw = rng.choice([p for p in PWS if p and b":" not in p])
            tagA, tagB = (b"$A", b"$B") if rng.random() < 0.5 else (b"$B", b"$A")
            ops.append(dict(op="coll", rule=ri)); ncoll += 1
            w.db = w.db + [(tagA, pw)]
            ops.append(dict(op="dba", user=tagA, pw=pw))
            path = w.rules[ri]["path"] + b"c"
            seq = [(tagA, pw), (tagB, pw), (tagA, pw + b"x"), (tagB, pw)]
            if rng.random() < 0.5:
                opw = rng.choice([p for p in PWS if p != pw and b":" not in p])
                w.db = w.db + [(tagB, opw)]
                ops.append(dict(op="dba", user=tagB, pw=opw))
                seq += [(tagB, opw), (tagA, opw), (tagA, pw), (tagB, pw)]
            for u, p in seq:
                ops.append(dict(op="qb", path=path, user=u, pw=p, tweak="collision"))
        else:
            ri = rng.randrange(len(w.rules))
            if rng.random() < 0.06:
                ops.append(dict(op="q", method=b"GET", path=b"/open/x", target=b"/open/x", auth=rng.choice([None, b"Basic Zm9vOmJhcg=="]), tweak="no-rule"))
                continue
            r = w.rules[ri]
            path = r["path"] + rng.choice([b"x", b"dir/y", b""]); query = rng.choice([b"", b"", b"?a=1"])
            target = path + query; method = rng.choice([b"GET", b"GET", b"POST", b"HEAD"])
            inusers = [u for u, _ in w.db if not u.startswith(b"$")]
            okusers = [u for u in inusers if authorized(r, u)]
            replay = rng.random() < 0.25 and recent
            if replay:
                rri, user, pw = rng.choice(recent)
                if rng.random() < 0.6 or rri >= len(w.rules): rri = ri
                r = w.rules[rri]; ri = rri; path = r["path"] + b"x"; target = path
                tweak = "replay-old"
            else:
                tweak = None
                if rng.random() < 0.55 or not okusers:
                    tweak = rng.choice(DIGEST_BAD if r["method"] == b"digest" else BASIC_BAD)
                user = rng.choice(okusers) if okusers else rng.choice(USERS)
                pw = w.pw(user) if w.pw(user) is not None else b"secret"
            if tweak == "unknownuser": user = b"mallory"; pw = b"secret"
            if tweak == "unauthorized":
                cand = [u for u in inusers if not authorized(r, u)]
                if not cand: tweak = "wrongpw"
                else: user = rng.choice(cand); pw = w.pw(user)
            if tweak == "wrongpw": pw = rng.choice([p for p in PWS if p != pw])
            if tweak == "pw-prefix": pw = pw[:-1] if pw else b"x"
            if tweak == "pw-ext": pw = pw + b"x"
            if tweak == "user-case": user = user.upper()
            if tweak == "emptypw": pw = b"" if pw else b"x"
            if tweak == "emptyuser": user = b""
            if tweak == "nul-user": user = user + b"\0x"
            if r["method"] == b"basic":
                if tweak == "digest-at-basic":
                    auth = digest_header(rng, user, r["realm"], pw, method, target, mk_nonce(w.epoch, 7, None))
                elif tweak == "none": auth = None
                else: auth = basic_header(rng, user, pw, tweak if tweak in ("no-colon", "bad-b64", "empty", "too-long", "no-space", "other-scheme") else
                                          (rng.choice([None, None, "lc", "ws-b64"]) if tweak is None else None))
            else:
                secret = r["secret"]; ts = w.epoch - rng.choice([0, 0, 1, 30, 539, 541, 600]); rnd = rng.randrange(1 << 32)
                if ts < w.epoch - 600: ts = w.epoch
                if tweak == "stale": ts = w.epoch - rng.choice([601, 602, 1000, 86400])
                if tweak == "stale-edge": ts = w.epoch - 601
                if tweak == "future": ts = w.epoch + rng.choice([1, 2, 600, 100000])
                nonce = mk_nonce(ts, rnd, secret)
                if tweak == "signbit": nonce = b"%x:" % ((1 << 63) + rng.choice([0, 1, w.epoch, w.epoch - 5])) + nonce.split(b":", 1)[1]
                if tweak == "nonce-forged":
                    if secret is None: tweak = "wrongpw"; pw = pw + b"y"
                    else: nonce = rng.choice([mk_nonce(ts, rnd, secret + b"x"), mk_nonce(ts, rnd, b""), mk_nonce(ts, rnd ^ 1, secret).replace(b"%x:" % (rnd ^ 1), b"%x:" % rnd),
                                              mk_nonce(ts - 1, rnd, secret).replace(b"%x:" % (ts - 1), b"%x:" % ts, 1)])
                if tweak == "nonce-norand":
                    if secret is None: tweak = "resp-flip"
                    else: nonce = mk_nonce(ts, rnd, None)
                if tweak == "nonce-lz":
                    if secret is None: tweak = "resp-flip"
                    else: nonce = b"0" + nonce
                if tweak == "other-rule-nonce":
                    oth = [q for q in w.rules if q["secret"] not in (None, secret)]
                    if secret is None or not oth: tweak = "resp-flip"
                    else: nonce = mk_nonce(ts, rnd, oth[0]["secret"])
                realm = r["realm"]
                if tweak == "wrongrealm": realm = rng.choice([q for q in [b"R1", b"R2", b"Realm One", b"r1"] if q != realm])
                allowed = [a for a in (r["algo"] or b"MD5").split(b"|")]
                algo = rng.choice(allowed + [None]) if (b"MD5" in allowed) else rng.choice(allowed)
                if tweak == "algo-sha": algo = b"SHA-256"
                if tweak == "algo-junk": algo = rng.choice([b"MD4", b"MD5-ses", b"-sess", b"md"])
                qop = rng.choice([None, b"auth", b"auth"])
                if tweak == "auth-int": qop = b"auth-int"
                if tweak == "no-cnonce" and not qop and not (algo or b"").lower().endswith(b"-sess"): qop = b"auth"
                uri = target; smethod = method
                if tweak == "uri-other": uri = r["path"] + b"other"
                if tweak == "uri-prefix": uri = target[:-1]
                if tweak == "uri-longer": uri = target + b"x"
                if tweak == "method-other": smethod = b"POST" if method != b"POST" else b"GET"
                if tweak == "basic-at-digest": auth = basic_header(rng, user, pw)
                elif tweak == "none": auth = None
                else:
                    style = rng.randrange(32)
                    auth = digest_header(rng, user, realm, pw, smethod, uri, nonce, qop=qop, algo=algo, style=style,
                                         tweak=tweak if tweak and (tweak.startswith(("resp-", "drop-")) or tweak in ("no-cnonce", "unterminated")) else
                                         (rng.choice([None, None, "resp-upper"]) if tweak is None else None))
            ops.append(dict(op="q", method=method, path=path, target=target, auth=auth, tweak=tweak or "valid", user=user, pw=pw))
            if tweak is None and len(recent) < 6: recent.append((ri, user, pw))
    return dict(rules=w.rules, cache=w.cache, ops=ops)


# ------------------------------------------------------------------ rendering
def h_or_tilde(b):
    return "~" if b is None else hx(b)


def render_harness(case):
    t = []
    for r in case["rules"]:
        t.append("rule:%s:%s:%s:%s:%s:%s" % (hx(r["path"]), hx(r["method"]), hx(r["realm"]), hx(r["require"]), h_or_tilde(r["algo"]), h_or_tilde(r["secret"])))
    if case["cache"] is not None: t.append("cache:%d" % case["cache"])
    for o in case["ops"]:
        k = o["op"]
        if k == "db": t.append("db:" + hx(b"".join(u + b":" + p + b"\n" for u, p in o["db"])))
        elif k == "dba": t.append("dba:%s:%s" % (o["user"].decode() if o["user"].startswith(b"$") else hx(o["user"]), hx(o["pw"])))
        elif k == "t": t.append("t:%d" % o["n"])
        elif k == "sk": t.append("sk:%d" % o["d"])
        elif k == "coll": t.append("coll:%d" % o["rule"])
        elif k == "qb": t.append("qb:%s:%s:%s" % (hx(o["path"]), o["user"].decode() if o["user"].startswith(b"$") else hx(o["user"]), hx(o["pw"])))
        elif k == "q": t.append("q:%s:%s:%s:%s" % (hx(o["method"]), hx(o["path"]), hx(o["target"]), h_or_tilde(o["auth"])))
    return " ".join(t)


def parse_impl(line):
    """-> seeds, collision pairs, request outcomes (raw tokens), cache count"""
    toks = line.split()
    seeds = toks[0][6:] if toks and toks[0].startswith("seeds=") else ""
    colls = []; outs = []; cache = None
    for tk in toks[1:]:
        if tk.startswith("C:"):
            p = tk[2:].split(":"); colls.append((unhx(p[0]), unhx(p[1])) if len(p) == 2 else None)
        elif tk.startswith("cache="): cache = int(tk[6:])
        else: outs.append(tk)
    return seeds, colls, outs, cache


def canon(tok):
    if tok.startswith("401:") and "REMOTE_USER" not in tok: return "401"
    if tok.startswith("S:"): return ":".join(tok.split(":")[:3])
    return tok


def concretize(case, colls):
    """substitute $A/$B with the names the harness found; returns the op list with concrete users, db contents and headers"""
    ops = []; ci = -1; names = {}
    dbtxt = []
    for o in case["ops"]:
        o = dict(o)
        if o["op"] == "coll":
            ci += 1
            pair = colls[ci] if ci < len(colls) else None
            names = {b"$A": pair[0], b"$B": pair[1]} if pair else {b"$A": b"zzzA", b"$B": b"zzzB"}
            continue
        if o["op"] == "db": dbtxt = list(o["db"])
        if o["op"] == "dba":
            dbtxt = dbtxt + [(names.get(o["user"], o["user"]), o["pw"])]
            o = dict(op="db", db=list(dbtxt))
        if o["op"] == "qb":
            u = names.get(o["user"], o["user"])
            o = dict(op="q", method=b"GET", path=o["path"], target=o["path"], auth=b"Basic " + base64.b64encode(u + b":" + o["pw"]), tweak="collision", user=u, pw=o["pw"])
        if o["op"] == "db":
            o["db"] = [(names.get(u, u), p) for u, p in o["db"]]; dbtxt = list(o["db"])
        ops.append(o)
    return ops


def render_model(case, seeds, cops):
    t = ["seeds=" + seeds]
    for r in case["rules"]:
        t.append("rule:%s:%s:%s:%s:%s:%s" % (hx(r["path"]), hx(r["method"]), hx(r["realm"]), hx(r["require"]), h_or_tilde(r["algo"]), h_or_tilde(r["secret"])))
    if case["cache"] is not None: t.append("cache:%d" % case["cache"])
    for o in cops:
        k = o["op"]
        if k == "db": t.append("db:" + hx(b"".join(u + b":" + p + b"\n" for u, p in o["db"])))
        elif k == "t": t.append("t:%d" % o["n"])
        elif k == "sk": t.append("sk:%d" % o["d"])
        elif k == "q": t.append("q:%s:%s:%s:%s" % (hx(o["method"]), hx(o["path"]), hx(o["target"]), h_or_tilde(o["auth"])))
    return " ".join(t)


# ------------------------------------------------------------------ the monitor (property text -> judgement)
TOKEN = rb"[!#$%&'*+\-.^_`|~0-9A-Za-z]+"


def rfc_digest_params(v):
    """strict RFC 7616 credentials: Digest SP #( name = ( token | quoted-string ) ); None when not of that form"""
    m = re.match(rb"(?i)digest +", v)
    if not m: return None
    s = v[m.end():]; out = {}
    pos = 0
    item = re.compile(rb"[ \t]*(" + TOKEN + rb")[ \t]*=[ \t]*(?:\"((?:[^\"\\]|\\.)*)\"|([^ \t,\"]*))[ \t]*(?:,|$)")
    while pos < len(s):
        m = item.match(s, pos)
        if not m: return None
        k = m.group(1).lower()
        if k in out: return None
        out[k] = m.group(2) if m.group(2) is not None else m.group(3)
        pos = m.end()
    return out


def b64_strict(s):
    s = re.sub(rb"[ \t\r\n]", b"", s)
    if not re.fullmatch(rb"[A-Za-z0-9+/]*={0,2}", s): return None
    core = s.rstrip(b"=")
    if len(core) % 4 == 1: return None
    return base64.b64decode(core + b"=" * (-len(core) % 4))


def creds_ok_now(w, r, o, kind):
    """does the request carry credentials valid for a user the rule authorizes, per the database in force now?"""
    return credential_secret(w, r, o, kind, w.db) is not None


def find_pw(db, user):
    for u, p in db:
        if u == user: return p
    return None


def credential_secret(w, r, o, kind, db):
    """None if the request's credentials are not valid against `db`; else the (user, secret) they prove knowledge of"""
    auth = o["auth"]
    if auth is None: return None
    if kind == b"basic":
        m = re.match(rb"(?i)basic +(.*)$", auth, flags=re.S)
        raw = b64_strict(m.group(1)) if m else None
        if raw is None: return None
        if b":" not in raw: return None
        user, pw = raw.split(b":", 1)
        p = find_pw(db, user)
        if p is None or b"\0" in user: return None
        # a password is compared as a C string by the backend (bytes after a NUL are not part of an HTTP password)
        if p != pw.split(b"\0")[0]: return None
        if not authorized(r, user): return None
        return (user, pw)
    else:
        dp = rfc_digest_params(auth)
        if dp is None: return None
        for k in (b"username", b"realm", b"nonce", b"uri", b"response"):
            if k not in dp: return None
        if b"username*" in dp or dp.get(b"userhash", b"false").lower() == b"true": return "skip"
        user = dp[b"username"]
        p = find_pw(db, user)
        if p is None or not authorized(r, user): return None
        if dp[b"realm"] != r["realm"]: return None
        algo = dp.get(b"algorithm", b"MD5")
        allowed = [a.lower() for a in (r["algo"] or b"MD5").split(b"|")]
        if algo.lower() not in allowed: return None
        if dp[b"uri"] != o["target"]: return None
        qop = dp.get(b"qop")
        if qop is not None and qop != b"auth": return None
        if qop is not None and (b"nc" not in dp or b"cnonce" not in dp): return None
        sess = algo.lower().endswith(b"-sess")
        if sess and b"cnonce" not in dp: return None
        nonce = dp[b"nonce"]
        m = re.match(rb"([0-9a-f]{1,16}):", nonce)
        if not m: return None
        ts = int(m.group(1), 16)
        if ts > w.epoch or w.epoch - ts > NONCE_LIFE: return None
        if r["secret"] is not None:
            m2 = re.match(rb"[0-9a-f]+:([0-9a-f]{1,8}):", nonce)
            if not m2 or mk_nonce(ts, int(m2.group(1), 16), r["secret"]) != nonce: return None
        elif not re.fullmatch(rb"[0-9a-f]+:[0-9a-f]{32}", nonce): return "skip"    # without nonce-secret any hash part could have been issued
        ha1 = md5hex(user + b":" + r["realm"] + b":" + p)
        if sess: ha1 = md5hex(ha1 + b":" + nonce + b":" + dp[b"cnonce"])
        ha2 = md5hex(o["method"] + b":" + dp[b"uri"])
        if qop is not None: exp = md5hex(ha1 + b":" + nonce + b":" + dp[b"nc"] + b":" + dp[b"cnonce"] + b":" + qop + b":" + ha2)
        else: exp = md5hex(ha1 + b":" + nonce + b":" + ha2)
        if dp[b"response"].lower() != exp: return None
        return (user, md5hex(user + b":" + r["realm"] + b":" + p), algo.lower())


def monitor_history(case, cops, outs):
    """returns (index of request, why) for the first request served against the property, else None"""
    w = World(case["rules"], case["cache"])
    qi = 0
    vouched = {}      # (rule index, user, secret...) -> mono time of the latest request served while the database agreed
    for o in cops:
        k = o["op"]
        if k == "db": w.db = list(o["db"])
        elif k == "t": w.epoch += o["n"]; w.mono += o["n"]
        elif k == "sk": w.epoch += o["d"]
        elif k == "q":
            if qi >= len(outs): return None
            out = outs[qi]; qi += 1
            ri, r = w.rule_for(o["path"])
            if r is None:
                if out != "P": return (qi - 1, "no auth.require rule covers %r but the request was answered %s" % (o["path"], out))
                continue
            served = out.startswith(("S:", "P")) or "REMOTE_USER-SET" in out
            if out.startswith("E"): return (qi - 1, "handler returned %s (neither served nor 401/400)" % out)
            if r["method"] == b"digest" and w.cache is not None:
                # mod_auth_digest_get() caches the H(A1) the backend returns on the first lookup for (rule, user), whether or not the response
                # then matches: from that moment, for max-age, the cache stands in for the backend.  Any digest request naming a user the
                # backend knows counts as such a lookup here (a few of them are refused before the lookup: this only makes the monitor lenient)
                dpv = rfc_digest_params(o["auth"] or b"")
                if dpv and b"username" in dpv and b"username*" not in dpv:
                    pv = find_pw(w.db, dpv[b"username"])
                    if pv is not None:
                        kv = (ri, dpv[b"username"], md5hex(dpv[b"username"] + b":" + r["realm"] + b":" + pv), dpv.get(b"algorithm", b"MD5").lower())
                        if kv not in vouched or w.mono - vouched[kv] > w.cache + 8: vouched[kv] = w.mono
            if not served: continue
            if out == "P": return (qi - 1, "path %r is covered by rule %d (%r) but was served without authentication" % (o["path"], ri, r["path"]))
            if "REMOTE_USER-SET" in out: return (qi - 1, "REMOTE_USER exported on a refused request: %s" % out)
            parts = out.split(":")
            suser = unhx(parts[1]); stype = parts[2]
            kind = r["method"]
            if (stype == "Basic") != (kind == b"basic"): return (qi - 1, "served as %s under a %s rule" % (stype, kind.decode()))
            now = credential_secret(w, r, o, kind, w.db)
            if now == "skip": continue
            if now is not None:
                if now[0] != suser: return (qi - 1, "REMOTE_USER %r differs from the authenticated user %r" % (suser, now[0]))
                vouched[(ri,) + tuple(now)] = w.mono
                continue
            # not valid now: only the credential cache may justify it -- same rule, same user, same secret, vouched for by the
            # backend no longer ago than max-age (+ the 8 s cleanup period)
            just = None
            if w.cache is not None:
                for key, tm in vouched.items():
                    if key[0] != ri or key[1] != suser or w.mono - tm > w.cache + 8: continue
                    # re-validate the request against a database holding exactly that vouched secret
                    if kind == b"basic":
                        m = re.match(rb"(?i)basic +(.*)$", o["auth"] or b"", flags=re.S)
                        raw = (b64_strict(m.group(1)) if m else None) or b""
                        if raw == key[1] + b":" + key[2]: just = key
                    else:
                        # digest: the cached H(A1) stands in for the database record
                        class W2: pass
                        res = digest_with_ha1(w, r, o, key[1], key[2], key[3])
                        if res: just = key
            if just is None:
                return (qi - 1, "served %s to %r although the credentials are not valid (%s) and no cache entry for the same rule, user and secret "
                        "was vouched for within max-age" % (stype, suser, o.get("tweak")))
    return None


def digest_with_ha1(w, r, o, user, ha1, algo):
    dp = rfc_digest_params(o["auth"] or b"")
    if dp is None: return False
    for k in (b"username", b"realm", b"nonce", b"uri", b"response"):
        if k not in dp: return False
    if dp[b"username"] != user or not authorized(r, user) or dp[b"realm"] != r["realm"]: return False
    a = dp.get(b"algorithm", b"MD5").lower()
    if a != algo or dp[b"uri"] != o["target"]: return False
    qop = dp.get(b"qop")
    if qop is not None and (qop != b"auth" or b"nc" not in dp or b"cnonce" not in dp): return False
    nonce = dp[b"nonce"]
    m = re.match(rb"([0-9a-f]{1,16}):", nonce)
    if not m: return False
    ts = int(m.group(1), 16)
    if ts > w.epoch or w.epoch - ts > NONCE_LIFE: return False
    if r["secret"] is not None:
        m2 = re.match(rb"[0-9a-f]+:([0-9a-f]{1,8}):", nonce)
        if not m2 or mk_nonce(ts, int(m2.group(1), 16), r["secret"]) != nonce: return False
    h = ha1
    if a.endswith(b"-sess"):
        if b"cnonce" not in dp: return False
        h = md5hex(h + b":" + nonce + b":" + dp[b"cnonce"])
    ha2 = md5hex(o["method"] + b":" + dp[b"uri"])
    exp = md5hex(h + b":" + nonce + b":" + dp[b"nc"] + b":" + dp[b"cnonce"] + b":" + qop + b":" + ha2) if qop is not None else md5hex(h + b":" + nonce + b":" + ha2)
    return dp[b"response"].lower() == exp


# ------------------------------------------------------------------ driver
def enc_case(case):
    def e(x):
        if isinstance(x, bytes): return {"b": x.hex()}
        if isinstance(x, (list, tuple)): return [e(y) for y in x]
        if isinstance(x, dict): return {k: e(v) for k, v in x.items()}
        return x
    return e(case)


def dec_case(j):
    def d(x):
        if isinstance(x, dict) and set(x.keys()) == {"b"}: return bytes.fromhex(x["b"])
        if isinstance(x, list): return [d(y) for y in x]
        if isinstance(x, dict): return {k: d(v) for k, v in x.items()}
        return x
    c = d(j)
    for o in c["ops"]:
        if o["op"] == "db": o["db"] = [tuple(p) for p in o["db"]]
    return c


def evaluate(exe, model, cases):
    lines = [render_harness(c) for c in cases]
    rc_i, out_i, err_i = vlib.run_lines_sharded(exe, lines)
    res = []
    mlines = []
    parsed = []
    for c, o in zip(cases, out_i):
        seeds, colls, outs, cache = parse_impl(o)
        cops = concretize(c, colls)
        parsed.append((cops, outs, cache))
        mlines.append(render_model(c, seeds, cops))
    rc_m, out_m, err_m = vlib.run_lines_sharded(model, mlines)
    return lines, rc_i, out_i, err_i, mlines, parsed, out_m


def shrink(exe, model, case, bad):
    """drop operations while the verdict `bad(case)` stays"""
    cur = case
    changed = True
    while changed:
        changed = False
        for i in range(len(cur["ops"]) - 1, -1, -1):
            if cur["ops"][i]["op"] in ("coll",): continue
            cand = dict(cur, ops=cur["ops"][:i] + cur["ops"][i + 1:])
            if bad(cand):
                cur = cand; changed = True
    return cur


def verdict(exe, model, case):
    lines, rc_i, out_i, err_i, mlines, parsed, out_m = evaluate(exe, model, [case])
    if rc_i != 0 or not out_i: return ("crash", err_i[-1500:], lines[0], mlines[0] if mlines else "", out_i, out_m)
    cops, outs, cache = parsed[0]
    mon = monitor_history(case, cops, outs)
    ci = (" ".join(canon(t) for t in outs) + " cache=%s" % cache).strip()
    cm = (out_m[0] if out_m else "").strip()
    agree = (ci == cm) or " U " in (" " + cm + " ")
    return ("monitor" if mon else ("disagree" if not agree else "ok"), mon, lines[0], mlines[0], ci, cm)


def run(ctx):
    ok = ctx.prove()
    exe = vlib.cc_harness(ctx, "auth_h", link_srcs=LINK, extra_srcs=[os.path.join(vlib.VERIF, "harness", "auth_b.c")], ldflags=["-lcrypt"],
                          sanitize=(ctx.tier == "thorough"))
    model = vlib.model_driver("C16")
    cases = []
    cp = os.path.join(vlib.VERIF, "corpus", "C16.jsonl")
    if os.path.exists(cp):
        cases += [dec_case(json.loads(l)) for l in open(cp) if l.strip()]
    n = 1500 if ctx.tier == "quick" else 12000
    for _ in range(n):
        cases.append(gen_history(ctx.rng, ctx.tier))
    lines, rc_i, out_i, err_i, mlines, parsed, out_m = evaluate(exe, model, cases)
    ctx.cov["evaluations"] += sum(1 for c in cases for o in c["ops"] if o["op"] in ("q", "qb"))
    found = False
    if rc_i != 0:
        k = next((i for i, o in enumerate(out_i) if o == "<crash>"), len(out_i) - 1)
        ctx.violate("auth-harness-crash", "auth_h exited with %d: %s" % (rc_i, err_i[-800:]), dict(kind="crash", stderr=err_i[-3000:], case=lines[min(k, len(lines) - 1)]))
        found = True
    dist = {}; served = 0; refused = 0; dis = []; nreq = 0; unmod = 0; hits = 0
    mon_hits = []
    for i, (c, (cops, outs, cache)) in enumerate(zip(cases, parsed)):
        if i >= len(out_i) or out_i[i] == "<crash>": continue
        for o in c["ops"]:
            if o["op"] in ("q", "qb"): dist[o.get("tweak", "?")] = dist.get(o.get("tweak", "?"), 0) + 1
        served += sum(1 for t in outs if t.startswith("S:")); refused += sum(1 for t in outs if t.startswith(("401", "400")))
        mon = monitor_history(c, cops, outs)
        if mon: mon_hits.append((i, mon))
        ci = (" ".join(canon(t) for t in outs) + " cache=%s" % cache).strip()
        cm = (out_m[i] if i < len(out_m) else "<none>").strip()
        if " U " in (" " + cm + " "): unmod += 1; continue
        if ci != cm: dis.append(i)
    ctx.cov["distribution"] = dict(requests_by_kind=dist, served=served, refused=refused, histories=len(cases), unmodelled_histories=unmod)
    ctx.cov["correspondence"]["auth"] = dict(cases=len(cases), disagreements=len(dis))
    ctx.cov["distinct_nontrivial"] += served
    bad_mon = lambda cc: verdict(exe, model, cc)[0] == "monitor"
    bad_dis = lambda cc: verdict(exe, model, cc)[0] == "disagree"
    seen = set()
    for i, (qi, why) in mon_hits[:40]:
        key = "auth:" + re.sub(r"b'[^']*'|\d+", "#", why)[:70]
        if key in seen: continue
        seen.add(key)
        small = shrink(exe, model, cases[i], bad_mon)
        v = verdict(exe, model, small)
        ctx.violate(key, "C16 fails on the implementation: %s" % (v[1][1] if v[0] == "monitor" else why),
                    dict(kind="monitor", case=enc_case(small), harness_line=v[2], model_line=v[3], impl=v[4], model=v[5], why=v[1][1] if v[0] == "monitor" else why, harness="auth_h"))
        found = True
        if len(seen) >= 4: break
    if dis and not found:
        i = dis[0]
        small = shrink(exe, model, cases[i], bad_dis)
        v = verdict(exe, model, small)
        ctx.violate("auth-correspondence", "mod_auth.c no longer behaves as Auth.AuthModel (no request was served against the property in %d histories): impl=%s model=%s"
                    % (len(cases), v[4][:300], v[5][:300]),
                    dict(kind="correspondence", correspondence="Auth.AuthModel.run vs mod_auth_uri_handler/mod_auth_periodic", case=enc_case(small),
                         harness_line=v[2], model_line=v[3], impl=v[4], model=v[5], disagreements=len(dis)), no_input=True)
        found = True
    ctx.cov["rule"] = ("random histories (1-4 auth.require rules basic/digest, realms, require lists, algorithms MD5/MD5-sess, nonce-secret on/off, auth.cache off or max-age "
                       "0..600; plain userfile rewritten, passwords changed, users removed; seconds pass across cache max-age, the 8 s cleanup period and the 600 s nonce lifetime; "
                       "wall-clock jumps; valid requests and one named mutation each: " + ", ".join(sorted(set(DIGEST_BAD + BASIC_BAD))) +
                       "; replays of earlier valid credentials at the same and other rules; user names found by brute force to collide in the 32-bit cache key); "
                       "non-trivial = a request that was served")
    ctx.add_samples([dict(history=lines[i][:400], impl=out_i[i][:200]) for i in range(0, len(cases), max(1, len(cases) // 3))][:3])
    if not ok and not found:
        ctx.proof_broken_violation()


def replay(ctx, path):
    import shutil
    obj = json.load(open(path))
    rp = obj["replay"]
    exe = vlib.cc_harness(ctx, "auth_h", link_srcs=LINK, extra_srcs=[os.path.join(vlib.VERIF, "harness", "auth_b.c")], ldflags=["-lcrypt"])
    model = vlib.model_driver("C16")
    if "case" not in rp or not isinstance(rp["case"], dict):
        print(rp); shutil.rmtree(ctx.scratch, ignore_errors=True); return 1
    case = dec_case(rp["case"])
    v = verdict(exe, model, case)
    print("history:", v[2]); print("impl :", v[4]); print("model:", v[5]); print("verdict:", v[0], v[1])
    shutil.rmtree(ctx.scratch, ignore_errors=True)
    return 0 if v[0] == "ok" else 1
