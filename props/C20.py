"""C20 -- rewrite / redirect / alias / vhost rules map requests as documented.
Model: coq/Map/*.v ; harness: harness/map_h.c (keyvalue.c + mod_rewrite.c of the working tree, real PCRE2 as the match oracle)."""
import base64, itertools, os, re
import vlib
from vlib import hx, unhx
import C02, roots

LINK = [s for s in vlib.COMMON_SRC if s != "keyvalue.c"]
TL, TU, NONE, ALL, NDE, PSNDE, E64, D64 = 1, 2, 4, 8, 16, 32, 64, 128
UNRES = set(b"ABCDEFGHIJKLMNOPQRSTUVWXYZabcdefghijklmnopqrstuvwxyz0123456789-._~")
MODS = ["esc:", "escape:", "escnde:", "escpsnde:", "noesc:", "noescape:", "tolower:", "toupper:", "encb64u:", "decb64u:"]
MODFLAG = {"esc:": ALL, "escape:": ALL, "escnde:": NDE, "escpsnde:": PSNDE, "noesc:": NONE, "noescape:": NONE, "tolower:": TL,
           "toupper:": TU, "encb64u:": E64, "decb64u:": D64}


# ------------------------------------------------------------------ reference interpreter (written from the documentation)
def ref_case(kind, s):
    """tolower/toupper as named: ASCII letters outside %XX triplets change case"""
    out = bytearray(); i = 0
    while i < len(s):
        if s[i] == 0:
            out += s[i:]; break
        if s[i] == 0x25 and i + 2 < len(s) + 0 and re.fullmatch(rb"[0-9a-fA-F]{2}", s[i + 1:i + 3]):
            out += s[i:i + 3]; i += 3; continue
        c = s[i]
        if kind == "l" and 65 <= c <= 90: c += 32
        if kind == "u" and 97 <= c <= 122: c -= 32
        out.append(c); i += 1
    return bytes(out)


def ref_enc_all(s):
    return b"".join(bytes([c]) if c in UNRES else b"%%%02X" % c for c in s)


def ref_enc_nde(s, keep_slash):
    """no-double-encode: an existing %XX stays as written unless it encodes an unreserved character (then it is decoded);
    everything else outside the unreserved set (and '/' for psnde) is percent-encoded.  None when a '%' is not followed by
    two hex digits inside the string (what the code does then depends on bytes beyond the string)."""
    out = b""; i = 0
    while i < len(s):
        c = s[i]
        if c == 0x25:
            if i + 2 < len(s) + 0 and re.fullmatch(rb"[0-9a-fA-F]{2}", s[i + 1:i + 3]):
                x = int(s[i + 1:i + 3], 16)
                out += bytes([x]) if x in UNRES else s[i:i + 3]
                i += 3; continue
            if i + 2 >= len(s):
                return None
            out += b"%25"; i += 1; continue
        out += bytes([c]) if (c in UNRES or (keep_slash and c == 47)) else b"%%%02X" % c
        i += 1
    return out


def ref_apply(flags, s):
    """None when this combination is outside what the documentation defines (the monitor then stays silent)"""
    encs = [f for f in (NONE, ALL, NDE, PSNDE, E64, D64) if flags & f]
    if len(encs) > 1 or (flags & TL and flags & TU):
        return None
    if not encs:
        if flags & (TL | TU):
            return None     # case modifier without an encoding modifier: see DESIGN (code appends nothing); not judged
        encs = [PSNDE]
    e = encs[0]
    if not s:
        return b""
    if e == NONE: o = s
    elif e == ALL: o = ref_enc_all(s)
    elif e in (NDE, PSNDE):
        o = ref_enc_nde(s, e == PSNDE)
        if o is None: return None
    elif e == E64: o = base64.urlsafe_b64encode(s).rstrip(b"=")
    else:
        if not re.fullmatch(rb"[A-Za-z0-9_-]*", s) or len(s) % 4 == 1: return None
        o = base64.urlsafe_b64decode(s + b"=" * (-len(s) % 4))
    if flags & TL: o = ref_case("l", o)
    if flags & TU: o = ref_case("u", o)
    return o


TOK = re.compile(rb"\$\{([a-z0-9:]*?)(\d{1,2}|url\.scheme|url\.authority|url\.port|url\.path|url\.query|qsa)\}|"
                 rb"%\{([a-z0-9:]*?)(\d{1,2})\}|\$(\d)|%(\d)|(\$\$)|(%%)|([^$%]+)|([$%][^{0-9$%]?)", re.S)


def ref_subst(tmpl, subject, caps, cache, scheme, authority, port, path, query):
    """reference expansion of a well-formed template; None if the template uses something undefined here"""
    out = b""
    pos = 0
    while pos < len(tmpl):
        m = TOK.match(tmpl, pos)
        if not m:
            return None
        pos = m.end()
        dm, dw, pm, pw, d1, p1, dd, pp, lit, odd = m.groups()
        if lit is not None: out += lit
        elif dd: out += b"$"
        elif pp: out += b"%"
        elif odd is not None:
            if pos >= len(tmpl) and len(odd) == 1: out += odd      # trailing lone $ or %
            elif len(odd) == 2: out += odd
            else: return None
        elif d1 is not None or p1 is not None:
            n = int(d1 if d1 is not None else p1)
            src, cp = (subject, caps) if d1 is not None else ((cache[0], cache[1]) if cache else (b"", []))
            if n < len(cp): out += src[cp[n][0]:cp[n][1]]
        else:
            mods, what = (dm, dw) if dw is not None else (pm, pw)
            flags = 0
            ms = mods.decode()
            while ms:
                for k in MODS:
                    if ms.startswith(k):
                        flags |= MODFLAG[k]; ms = ms[len(k):]; break
                else:
                    return None
            if what.isdigit():
                n = int(what)
                src, cp = (subject, caps) if dw is not None else ((cache[0], cache[1]) if cache else (b"", []))
                if n < len(cp):
                    st, en = cp[n]
                    r = ref_apply(flags, src[st:en])
                    if r is None: return None
                    out += r
            elif what == b"qsa":
                if query is not None:
                    if b"\x00" in out: return None
                    if b"?" in out:
                        if query != b"": out += b"&"
                    else: out += b"?"
                    if flags:
                        r = ref_apply(flags, query)
                        if r is None: return None
                        out += r
                    else: out += query
            elif what == b"url.port":
                out += b"%d" % port
            else:
                v = {b"url.scheme": scheme, b"url.authority": authority, b"url.path": path.split(b"?")[0], b"url.query": query or b""}[what]
                if flags:
                    r = ref_apply(flags, v)
                    if r is None: return None
                    out += r
                else: out += v
    return out


def parse_caps(t):
    if t in ("-", ""): return []
    return [tuple(int(x) for x in p.split(".")) for p in t.split(",")]


# ------------------------------------------------------------------ monitors
def monitor(case, impl_line):
    try:
        t = case.split()
        if t[0] == "B":
            flags = int(t[1]); pre = unhx(t[2]); tail = unhx(t[3]); ln = int(t[4])
            s = tail[:ln]
            exp = ref_apply(flags, s) if flags else s
            if exp is None: return None
            got = unhx(impl_line)
            if got != pre + exp:
                return "burl_append(flags=0x%x, %r) appended %r, the modifiers as named give %r" % (flags, s, got[len(pre):], exp)
        elif t[0] == "S":
            tmpl = unhx(t[1]); subj = unhx(t[2]); caps = parse_caps(t[3])
            cache = None if t[4] == "~" else (unhx(t[4]), parse_caps(t[5]))
            q = None if t[10] == "~" else unhx(t[10])
            exp = ref_subst(tmpl, subj, caps, cache, unhx(t[6]), unhx(t[7]), int(t[8]), unhx(t[9]), q)
            if exp is None: return None
            got = unhx(impl_line)
            if got != exp:
                return "template %r expands to %r, reference interpreter gives %r" % (tmpl, got, exp)
    except Exception as e:
        return "harness output malformed (%s): %r" % (type(e).__name__, impl_line[:200])
    return None


def describe(case):
    t = case.split()
    if t[0] == "B":
        return "burl_append(b=%r, str=%r (buffer continues %r), flags=0x%x)" % (unhx(t[2]), unhx(t[3])[:int(t[4])], unhx(t[3])[int(t[4]):], int(t[1]))
    if t[0] == "S":
        return "subst(template=%r, subject=%r, captures=%s, cond=%s, url=(%r,%r,%s,%r,%s))" % (
            unhx(t[1]), unhx(t[2]), t[3], "none" if t[4] == "~" else "(%r,%s)" % (unhx(t[4]), t[5]), unhx(t[6]), unhx(t[7]), t[8], unhx(t[9]),
            "unset" if t[10] == "~" else repr(unhx(t[10])))
    if t[0] in "PR":
        return "%s(%s)" % ("process" if t[0] == "P" else "rewrite", " ".join(repr(unhx(x)) if re.fullmatch(r"(?:[0-9a-f]{2})+|-", x) and not x.isdigit() else x for x in t[1:]))
    return case


# ------------------------------------------------------------------ generators
CAPSTR = [b"ab", b"AbC", b"a/b", b"a b", b"%41", b"a%2", b"%zz", b"\xc3\xa9", b"Zm9v", b"Zm9", b"Z", b"a?b=c", b"", b"x%2fY", b"\x00a", b"a~._-", b"+&="]
PLACE = [b"1", b"0", b"2", b"9", b"12", b"url.path", b"url.query", b"url.authority", b"url.scheme", b"url.port", b"qsa", b"url.bogus", b"x"]


def ctx_variants():
    out = []
    for c1 in CAPSTR:
        subj = b"/p/" + c1 + b"/tail?q=A%20b"
        caps = "0.%d,3.%d,%d.%d" % (len(subj), 3 + len(c1), 3 + len(c1), 3 + len(c1))
        out.append((subj, caps, b"Host.Example", "0.12,0.4", b"http", b"Ex.Org:8080", 8080, subj, b"q=A%20b"))
    out.append((b"/a", "0.2", None, "-", b"https", b"h", 443, b"/a", None))
    out.append((b"/a?", "0.3,0.0", b"", "-", b"", b"", 0, b"/a?", b""))
    return out


def s_case(tmpl, cv):
    subj, caps, ccv, ccaps, sch, au, port, path, q = cv
    return "S %s %s %s %s %s %s %s %d %s %s" % (hx(tmpl), hx(subj), caps, "~" if ccv is None else hx(ccv), ccaps, hx(sch), hx(au), port, hx(path),
                                               "~" if q is None else hx(q))


RULEPOOL = [(rb"^/foo/(.*)$", 1), (rb"^/([^/?]+)/([^?]*)(?:\?(.*))?$", 3), (rb"^/a(b)?c", 1), (rb"\.php$", 0), (rb"^/x", 0), (rb"^(/[^?]*)\?(.*)$", 2),
            (rb"^/(\d+)$", 1), (rb"^/up/(.*)", 1), (rb"^/(a+)(b*)", 2), (rb"^/loop(.*)", 1), (rb"(?i)^/CASE/(.*)", 1), (rb"^/never$", 0), (rb"", 0)]
TARGETS = [b"/foo/bar", b"/foo/", b"/a/b/c?x=1", b"/abc", b"/ac", b"/i.php", b"/x", b"/xy?z", b"/123", b"/up/Down", b"/aaabb", b"/loop", b"/loop/1",
           b"/case/Q", b"/never", b"/", b"", b"/foo/b%41r?q=%20", b"/foo/\xff", b"/foo/\xc3\xa9", b"/p?a?b"]
TMPLPOOL = [b"/y", b"/z/$1", b"/$2/$1", b"/foo/a$1", b"/loopx$1", b"$1", b"", b"/r?${qsa}", b"/r?k=v${qsa}", b"/${tolower:noesc:1}", b"/${toupper:noesc:1}",
            b"/${esc:1}/%1", b"http://${url.authority}${url.path}${qsa}", b"/x$0", b"/up/${encb64u:1}", b"/${decb64u:1}", b"/never", b"/123", b"/x/$1/$$/%%"]


def gen_cases(ctx):
    rng = ctx.rng
    thorough = ctx.tier == "thorough"
    cases = []; dist = {}
    # (1) burl_append: all 256 flag values x all strings <= 3 over a boundary alphabet, with and without bytes following the capture
    alpha = [b"a", b"Z", b"%", b"4", b"f", b"/", b" ", b"\xe9", b"-", b"m"]
    words = [b"".join(w) for n in range(0, 4 if thorough else 3) for w in itertools.product(alpha, repeat=n)]
    for fl in range(256):
        for w in words:
            cases.append("B %d - %s %d" % (fl, hx(w), len(w)))
    for fl in (0, 1, 2, 4, 5, 6, 8, 9, 10, 16, 17, 18, 32, 33, 34, 64, 65, 66, 128, 129, 130):
        for w in words:
            for tail in (b"41", b"4", b"zz"):
                cases.append("B %d %s %s %d" % (fl, hx(b"P?q"), hx(w + tail), len(w)))
    b64words = [b"".join(w) for n in range(0, 6) for w in itertools.product([b"Z", b"m", b"9", b"_", b"-", b"=", b" ", b"\x00", b"!"], repeat=n) if n <= (5 if thorough else 4)]
    for w in b64words:
        for fl in (128, 129, 130):
            cases.append("B %d - %s %d" % (fl, hx(w), len(w)))
    for n in range(0, 40):
        w = bytes(rng.randrange(256) for _ in range(n))
        for fl in (64, 65, 66, 8, 4 | 2, 4 | 1):
            cases.append("B %d - %s %d" % (fl, hx(w), len(w)))
        e = base64.urlsafe_b64encode(w).rstrip(b"=")
        cases.append("B 128 - %s %d" % (hx(e), len(e)))
    dist["burl_append_exhaustive_flags_x_words"] = len(cases)
    # (2) every modifier sequence of length <= 2 (3 in thorough: sampled) x every placeholder x $/% x contexts
    k0 = len(cases)
    seqs = [()] + [(a,) for a in MODS] + [(a, b) for a in MODS for b in MODS]
    if thorough:
        seqs += [(a, b, c) for a in MODS for b in MODS for c in MODS]
    else:
        seqs += [tuple(rng.choice(MODS) for _ in range(3)) for _ in range(150)]
    cvs = ctx_variants()
    for sq in seqs:
        for pl in PLACE:
            for sig in (b"$", b"%"):
                tmpl = b"/L" + sig + b"{" + "".join(sq).encode() + pl + b"}R"
                for cv in (cvs if len(sq) <= 1 else [cvs[rng.randrange(len(cvs))], cvs[1]]):
                    cases.append(s_case(tmpl, cv))
    dist["modifier_sequences_x_placeholders"] = len(cases) - k0
    # (3) random templates from a token grammar (well-formed and malformed)
    k0 = len(cases)
    toks = [b"$1", b"$2", b"%1", b"%0", b"$0", b"$$", b"%%", b"$", b"%", b"%a", b"$x", b"lit", b"/", b"?", b"&k=v", b"${qsa}", b"${url.path}", b"${url.query}",
            b"${url.authority}", b"${url.port}", b"${url.scheme}", b"${esc:1}", b"${noesc:2}", b"%{tolower:noesc:1}", b"${toupper:noesc:url.authority}",
            b"${encb64u:1}", b"${decb64u:1}", b"${1", b"${", b"${esc", b"${esc:", b"${foo:1}", b"${tofoo:1}", b"${nofoo:1}", b"${escfoo:1}", b"${url.", b"${url.x}",
            b"${12}", b"${1x}", b"${qsa", b"{", b"}", b"${toupper:esc:1}", b"${tolower:encb64u:1}", b"${noesc:tolower:1}"]
    for _ in range(60000 if thorough else 12000):
        tmpl = b"".join(rng.choice(toks) for _ in range(rng.randrange(0, 7)))
        cases.append(s_case(tmpl, rng.choice(cvs)))
    dist["random_templates"] = len(cases) - k0
    ctx.cov["distribution"]["map"] = dist
    return cases


def amplifies(rx, tmpl):
    """a repeatable rule whose template re-encodes a capture can feed itself, or another repeatable rule that feeds it back, and then
    grows the target by a constant factor per round (base64url: 4/3, esc: up to 3): 100 rounds are bounded in number but not in size -
    the server process dies of it (li_base64_enc asserts at 3 GiB) and so does the extracted model (stack).  That is what an
    administrator gets for such a rule, not a statement about mapping; the generator keeps re-encoding templates in the rewrite-once
    part (observation in DESIGN 11.6)."""
    return re.search(rb"[$%]\{[^}]*(encb64u|esc)[^}]*\}", tmpl) is not None


def gen_rule_cases(ctx):
    """stage-1 lines for the C harness (real PCRE2); the model lines are built from the outcomes it reports"""
    rng = ctx.rng
    thorough = ctx.tier == "thorough"
    P = []; R = []
    for tg in TARGETS:
        for i, (re1, _) in enumerate(RULEPOOL):
            for t1 in TMPLPOOL[:8]:
                P.append((tg, b"http", b"h.ex", 80, (tg.split(b"?", 1) + [None])[1] if b"?" in tg else None, [(re1, t1)]))
    for _ in range(40000 if thorough else 6000):
        tg = rng.choice(TARGETS) if rng.random() < 0.7 else rng.choice(TARGETS) + rng.choice([b"x", b"/y", b"?q", b".php", b"\x80"])
        n = rng.randrange(1, 5)
        rules = [(rng.choice(RULEPOOL)[0], rng.choice(TMPLPOOL)) for _ in range(n)]
        q = tg.split(b"?", 1)[1] if b"?" in tg else None
        if rng.random() < 0.6:
            P.append((tg, b"http", b"h.ex", 80, q, rules))
        else:
            rep = rng.randrange(0, n + 1)
            if any(amplifies(rx, t) for rx, t in rules[rep:]): rep = n      # see amplifies(): keep the rule, apply it once
            R.append((tg, rep, b"h.ex", 80, rules))
    # loops: self-feeding rules with once/repeat placement
    for rep in (0, 1, 2):
        for tg in (b"/loop", b"/foo/x", b"/aaabb", b"/up/a"):
            R.append((tg, rep, b"h", 80, [(rb"^/loop(.*)", b"/loopx$1"), (rb"^/foo/(.*)$", b"/foo/a$1")]))
            R.append((tg, rep, b"h", 80, [(rb"^/foo/(.*)$", b"/loop$1"), (rb"^/loop(.*)", b"/loopx$1")]))
            R.append((tg, rep, b"h", 80, [(rb"^/up/(.*)", b"/foo/$1"), (rb"^/foo/(.*)$", b"/123"), (rb"^/(\d+)$", b"/never")]))
    return P, R


def p_line(c):
    tg, sch, au, port, q, rules = c
    return "P %s %s %s %d %s %d %s" % (hx(tg), hx(sch), hx(au), port, "~" if q is None else hx(q), len(rules), " ".join(hx(a) + " " + hx(b) for a, b in rules))


def r_line(c):
    tg, rep, au, port, rules = c
    return "R %s %d %s %d %d %s" % (hx(tg), rep, hx(au), port, len(rules), " ".join(hx(a) + " " + hx(b) for a, b in rules))


def ref_process(tg, sch, au, port, q, rules):
    """first rule in order whose pattern matches is applied (python re as an independent regex engine)"""
    try:
        s = tg.decode("utf-8")
    except UnicodeDecodeError:
        return None
    for i, (rx, tmpl) in enumerate(rules):
        m = re.search(rx.decode(), s)
        if m:
            if tmpl == b"":
                return ("GOON", i, None)
            sb = s.encode()
            def off(k):
                if m.start(k) < 0: return (0, 0)
                return (len(s[:m.start(k)].encode()), len(s[:m.end(k)].encode()))
            caps = [off(k) for k in range(0, (m.lastindex or 0) + 1)]
            exp = ref_subst(tmpl, sb, caps, None, sch, au, port, sb, q)
            return ("FIN", i, exp)
    return ("GOON", -1, None)


def ref_rewrite(tg, rep, au, port, rules):
    k = 0; fin = False
    while True:
        if k > 0:
            if k > 100: return ("ERR", None, None)
            if fin: return ("GOON", k, tg)
        q = tg.split(b"?", 1)[1] if b"?" in tg else None
        r = ref_process(tg, b"http", au, port, q, rules)
        if r is None: return None
        rc, m, res = r
        if rc == "GOON": return ("GOON", k, tg)
        if res is None: return None
        if not res.split(b"\x00")[0].startswith(b"/"): return ("ERR", None, None)
        tg = res; k += 1
        if m < rep: fin = True


def run_rules(ctx, exe, model):
    P, R = gen_rule_cases(ctx)
    lines = [p_line(c) for c in P] + [r_line(c) for c in R]
    rc_i, out_i, err_i = vlib.run_lines_sharded(exe, lines)
    if rc_i != 0 or len(out_i) != len(lines):
        ctx.violate("map-rules-harness-crash", "map_h exited with %d / %d of %d lines: %s" % (rc_i, len(out_i), len(lines), err_i[-600:]), dict(kind="crash", stderr=err_i[-3000:]))
        return
    mlines = []; impl = []
    for c, o in zip(P, out_i):
        res, _, tr = o.partition(" ;")
        ocs = tr.split()
        tg, sch, au, port, q, rules = c
        ocs = ocs + ["N"] * (len(rules) - len(ocs))
        mlines.append("P %s %s %s %d %s %d %s" % (hx(tg), hx(sch), hx(au), port, "~" if q is None else hx(q), len(rules),
                                                 " ".join(oc + " " + hx(t) for oc, (_, t) in zip(ocs, rules))))
        impl.append(res.strip())
    for c, o in zip(R, out_i[len(P):]):
        res, _, tr = o.partition(" ;")
        tg, rep, au, port, rules = c
        mlines.append("R %s %d %s %d %d %s %s" % (hx(tg), rep, hx(au), port, len(rules), " ".join(hx(t) for _, t in rules), " ".join(tr.split())))
        impl.append(res.strip())
    rc_m, out_m, err_m = vlib.run_lines_sharded(model, mlines)
    n = min(len(impl), len(out_m))
    ctx.cov["evaluations"] += len(lines)
    dis = [i for i in range(n) if impl[i] != out_m[i]]
    allc = P + R
    def mon(i):
        c = allc[i]; o = impl[i].split()
        if i < len(P):
            r = ref_process(*c)
            if r is None or o[0] == "ERR": return None
            if (o[0], int(o[1])) != (r[0], r[1]):
                return "rule selection: applied rule %s (%s) but the first matching rule in order is %d (%s)" % (o[1], o[0], r[1], r[0])
            if r[0] == "FIN" and r[2] is not None and unhx(o[2]) != r[2]:
                return "rule %d expands to %r, reference interpreter gives %r" % (r[1], unhx(o[2]), r[2])
        else:
            r = ref_rewrite(*c)
            if r is None: return None
            if r[0] != o[0]: return "rewrite ends with %s after %s rounds, reference gives %s" % (o[0], o[1], r[0])
            if r[0] == "GOON" and (int(o[1]), unhx(o[2])) != (r[1], r[2]):
                return "rewrite yields %r after %s rounds, reference gives %r after %d (once/repeat semantics)" % (unhx(o[2]), o[1], r[2], r[1])
        return None
    def desc(i):
        c = allc[i]
        return ("pcre_keyvalue_buffer_process" if i < len(P) else "process_rewrite_rules loop") + repr(c)
    ctx.cov["correspondence"]["map-rules"] = dict(cases=len(lines), disagreements=len(dis), process=len(P), rewrite_loops=len(R))
    found = False; rep = 0
    for i in range(n):
        why = mon(i)
        if why:
            found = True
            if rep < 3:
                ctx.violate("map-rules:" + re.sub(r"[0-9]+|b'.*?'", "#", why)[:50], "C20 fails on the implementation: %s; input %s" % (why, desc(i)),
                            dict(kind="monitor", case=lines[i], model_case=mlines[i], input=desc(i), impl=impl[i], model=out_m[i], why=why, harness="map_h"))
                rep += 1
    if dis and not found:
        i = dis[0]
        ctx.violate("map-rules-correspondence", "code no longer computes the model's function (process/rewrite), e.g. %s: impl=%s model=%s" % (desc(i), impl[i][:160], out_m[i][:160]),
                    dict(kind="correspondence", correspondence="Map.MapModel.process/rewrite_run vs keyvalue.c/mod_rewrite.c", case=lines[i], model_case=mlines[i],
                         impl=impl[i], model=out_m[i], disagreements=len(dis)), no_input=True)
    ctx.cov["distinct_nontrivial"] += len(set(l for l, o in zip(lines, impl) if o.startswith(("FIN", "COMEBACK", "GOON 1", "GOON 2", "ERR"))))
    ctx.add_samples([dict(case=desc(i), impl=impl[i]) for i in range(0, n, max(1, n // 3))][:3])
    return found


def run(ctx):
    ok = ctx.prove()
    cases = []
    cp = os.path.join(vlib.VERIF, "corpus", "C20.txt")
    if os.path.exists(cp):
        cases += [l.strip() for l in open(cp) if l.strip() and not l.startswith("#")]
    cases += gen_cases(ctx)
    exe = vlib.cc_harness(ctx, "map_h", link_srcs=LINK, sanitize=(ctx.tier == "thorough"))
    model = vlib.model_driver("C20")
    rc_i, out_i, err_i = vlib.run_lines_sharded(exe, cases)
    rc_m, out_m, err_m = vlib.run_lines_sharded(model, cases)
    ctx.cov["evaluations"] += len(cases)
    if rc_i != 0:
        ctx.violate("map-harness-crash", "map_h exited with %d: %s" % (rc_i, err_i[-800:]), dict(kind="crash", stderr=err_i[-3000:]))
    n = min(len(cases), len(out_i), len(out_m))
    dis = [i for i in range(n) if out_i[i] != out_m[i]]
    ctx.cov["correspondence"]["map-subst"] = dict(cases=len(cases), disagreements=len(dis))
    ctx.cov["distinct_nontrivial"] += len(set(c for c, o in zip(cases, out_i) if o != "-"))
    found = vlib.judge(ctx, "C20", "map-subst", cases, out_i, out_m, dis, monitor, describe, "map_h",
                       "Map.MapModel.burl_append/subst vs burl_append()/pcre_keyvalue_buffer_subst()")
    ctx.add_samples([dict(case=describe(c), impl=o) for c, o in list(zip(cases, out_i))[:: max(1, len(cases) // 4)]][:4])
    found2 = run_rules(ctx, exe, model)
    # alias.url / simple-vhost / evhost: the mapping stages modelled in coq/Roots, judged here against what their documentation says
    mcases = [c for c in roots.gen_unit_cases(ctx) if c[0] in "AVE"]
    out_i3, _, found3 = C02.correspond(ctx, "C20", "roots_h", "ROOTS", mcases, roots.monitor_mapping, roots.describe_unit, "roots-mapping", link=roots.LINK)
    ctx.cov["distinct_nontrivial"] += len(set(c for c, o in zip(mcases, out_i3) if o.split()[:1] not in (["X"], ["?"])))
    found2 = found2 or found3
    ctx.cov["rule"] = ("burl_append: all 256 flag values x all strings <= 2 (3 thorough) over {a Z % 4 f / SP 0xe9 - m} with/without bytes following the capture, base64url words; "
                       "templates: every modifier sequence <= 2 (sampled 3) x every placeholder x $/% x capture contexts, random token-grammar templates incl. malformed; "
                       "rule lists from a regex pool x templates x targets through real PCRE2 (process and rewrite once/repeat loops); non-trivial = non-empty expansion / a rule fired; "
                       "alias.url over every tail <= 5 after each key, simple-vhost and evhost path construction over hosts <= 4-6 from {a b . : 1 / 8} plus named hosts and 15 patterns, "
                       "each judged by a reference written from the modules' documentation")
    if not ok and not (found or found2):
        ctx.proof_broken_violation()


def replay(ctx, path):
    import json, shutil
    obj = json.load(open(path))
    case = obj["replay"].get("case")
    exe = vlib.cc_harness(ctx, "map_h", link_srcs=LINK)
    model = vlib.model_driver("C20")
    _, oi, _ = vlib.run_lines(exe, [case])
    mc = obj["replay"].get("model_case", case)
    _, om, _ = vlib.run_lines(model, [mc])
    print("input:", describe(case)); print("impl :", oi); print("model:", om)
    bad = False
    if case[0] in "BS":
        why = monitor(case, oi[0]) if oi else "no output"
        print("monitor:", why); bad = bool(why) or oi != om
    else:
        bad = (oi[0].split(" ;")[0].strip() != om[0]) if oi and om else True
    shutil.rmtree(ctx.scratch, ignore_errors=True)
    return 1 if bad else 0
