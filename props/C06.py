"""C06 -- HTTP/2 flow control: never exceed the peer's window, never deadlock.
Model: coq/H2/H2Flow.v ; harness: harness/h2_h.c (h2.c of the working tree on an in-process connection)."""
import os, re
import vlib

LINK = vlib.COMMON_SRC + ["ls-hpack/lshpack.c", "algo_xxhash.c", "mod_auth_api.c", "mod_vhostdb_api.c"]
IMAX = 2**31 - 1
RFC_INITIAL_WINDOW = 65535          # RFC 9113 6.9.2 / 6.5.2
BIG = 1 << 30


def canon(line):
    """drop the HPACK block length from HEADERS frames (C07's business): H<sid>.<len>.<flags> -> H<sid>.<flags>"""
    return re.sub(r" H(\d+)\.\d+\.([0-9a-f]+)", r" H\1.\2", line)


def split_actions(impl_line):
    body, _, end = impl_line.partition(" |end ")
    parts = re.split(r"(?:^| )(\d+):", body)
    out = {}
    for i in range(1, len(parts), 2):
        out[int(parts[i])] = parts[i + 1].split()
    return out, end


def monitor(case, impl_line):
    """RFC 9113 flow control judged on the implementation's frames alone."""
    try:
        acts = case.split()
        outs, end = split_actions(impl_line)
        conn_credit = RFC_INITIAL_WINDOW; conn_sent = 0
        iws = RFC_INITIAL_WINDOW
        st = {}        # sid -> dict(wu, sent, want, done, reset)
        dead = False
        # client's view of the windows lighttpd advertises (uploads)
        up_conn = RFC_INITIAL_WINDOW; up_st = {}; adv_iws = RFC_INITIAL_WINDOW
        for k, a in enumerate(acts):
            f = a.split(":")
            o = outs.get(k, [])
            expect = None
            if dead:
                pass
            elif f[0] == "S" and len(f) > 1 and f[1]:
                for p in f[1].split(","):
                    i, v = p.split("="); i = int(i); v = int(v)
                    if i == 4:
                        if v > IMAX: expect = ("A", 3); break
                        iws = v
                    elif i == 5 and not (16384 <= v <= 16777215): expect = ("A", 1); break
                    elif i == 2 and v not in (0, 1): expect = ("A", 1); break
            elif f[0] == "H":
                sid = int(f[1])
                if f[3] == "GET" and f[4].startswith("/b"):
                    st[sid] = dict(wu=0, sent=0, want=int(f[4][2:]), done=False, reset=False, up=False)
                else:
                    st[sid] = dict(wu=0, sent=0, want=None, done=False, reset=False, up=True)
                    up_st[sid] = adv_iws
            elif f[0] == "W":
                sid = int(f[1]); v = int(f[2]) & IMAX
                if sid == 0:
                    if v == 0: expect = ("A", 1)
                    elif conn_credit - conn_sent + v > IMAX: expect = ("A", 3)
                    else: conn_credit += v
                elif sid in st and not st[sid]["done"] and not st[sid]["reset"]:
                    s = st[sid]
                    if v == 0: expect = ("R", sid, 1)
                    elif iws + s["wu"] - s["sent"] + v > IMAX: expect = ("R", sid, 3)
                    else: s["wu"] += v
            elif f[0] == "R":
                sid = int(f[1])
                if sid == 0 or sid > max(list(st) + [0]): expect = ("A", 1)
                elif sid in st: st[sid]["reset"] = True
            elif f[0] == "D":
                sid = int(f[1]); ln = int(f[3]) + ((1 + int(f[4])) if len(f) > 4 and int(f[2], 16) & 8 else 0)
                if sid in up_st and not st[sid]["reset"]:
                    if ln > up_st[sid] or ln > up_conn:
                        return ("upload stalls: before DATA #%d (%d octets) the client's windows are stream=%d connection=%d although it respected "
                                "every window lighttpd advertised" % (k, ln, up_st[sid], up_conn))
                    up_st[sid] -= ln; up_conn -= ln
            # judge the frames emitted after this action
            for fr in o:
                t = fr[0]; nums = fr[1:].split(".")
                if t == "D":
                    sid, ln, fl = int(nums[0]), int(nums[1]), int(nums[2], 16)
                    s = st.get(sid)
                    if s is None: return "DATA on unknown stream %d" % sid
                    s["sent"] += ln; conn_sent += ln
                    if s["sent"] > iws + s["wu"]:
                        return "stream %d: %d DATA octets sent, only %d octets of credit granted by then (initial window %d + WINDOW_UPDATE %d)" % (
                            sid, s["sent"], iws + s["wu"], iws, s["wu"])
                    if conn_sent > conn_credit:
                        return "connection: %d DATA octets sent, only %d octets of credit granted by then" % (conn_sent, conn_credit)
                    if fl & 1: s["done"] = True
                elif t == "H":
                    sid, fl = int(nums[0]), int(nums[-1], 16)
                    if fl & 1 and sid in st: st[sid]["done"] = True
                elif t == "R":
                    sid = int(nums[0])
                    if sid in st: st[sid]["reset"] = True
                elif t == "A":
                    if int(nums[1]) != 0: dead = True
                elif t == "W":
                    sid, inc = int(nums[0]), int(nums[1])
                    if sid == 0: up_conn += inc
                    elif sid in up_st: up_st[sid] += inc
                elif t == "S" and nums[-1] == "0":
                    pass
            if k == 0 and f[0] == "P":
                adv = [fr for fr in o if fr.startswith("W0.")]
            if expect and not dead or (expect and expect[0] == "A"):
                if expect[0] == "A":
                    if not any(fr.startswith("A") and fr.endswith(".%d" % expect[1]) for fr in o):
                        return "action %d (%s) must be answered with GOAWAY error %d, got %s" % (k, a, expect[1], " ".join(o) or "nothing")
                    dead = True
                else:
                    if not any(fr == "R%d.%d" % (expect[1], expect[2]) for fr in o):
                        return "action %d (%s) must be answered with RST_STREAM(%d) error %d, got %s" % (k, a, expect[1], expect[2], " ".join(o) or "nothing")
        if not dead and case.endswith("#complete"):
            pass
        # responses stalled on a window complete once credit is granted (the generator ends with ample credit)
        if not dead and acts and acts[-1].startswith("W:") and "FINAL" in os.environ.get("C06_DEBUG", "FINAL"):
            granted_all = all(("W:%d:%d" % (sid, BIG)) in acts for sid in st if not st[sid]["up"]) and ("W:0:%d" % BIG) in acts
            if granted_all:
                for sid, s in st.items():
                    if s["up"] or s["reset"]: continue
                    last_grant = max(i for i, a in enumerate(acts) if a == "W:%d:%d" % (sid, BIG) or a == "W:0:%d" % BIG)
                    if not s["done"] or s["sent"] != s["want"]:
                        return "stream %d: response stalled: %d of %d octets sent and %s although ample credit was granted" % (
                            sid, s["sent"], s["want"], "END_STREAM seen" if s["done"] else "no END_STREAM")
        for sid, s in st.items():
            if s["up"] and not s["reset"] and not dead and any(a.startswith("D:%d:1:" % sid) or a.startswith("D:%d:9:" % sid) for a in acts):
                if not s["done"]:
                    return "upload on stream %d finished by the client but never answered" % sid
    except Exception as e:
        return "monitor could not read harness output (%s: %s): %r" % (type(e).__name__, e, impl_line[:160])
    return None


def describe(case):
    return "client frames: " + case


def gen_cases(ctx):
    rng = ctx.rng
    thorough = ctx.tier == "thorough"
    cases = []
    dist = dict(send=0, upload=0, fixed=0)
    fixed = [
        "P SA H:1:5:GET:/b65536 W:0:%d W:1:%d" % (BIG, BIG),
        "P W:0:100000 H:1:5:GET:/b65536",
        "P W:0:100000 H:1:5:GET:/b65535",
        "P W:0:100000 H:1:5:GET:/b65537 W:1:1 W:1:1",
        "P S:4=0 H:1:5:GET:/b5000 S:4=2047 S:4=2048 S:4=10,4=3000 W:1:%d" % BIG,
        "P H:1:5:GET:/b70000 W:1:0", "P H:1:5:GET:/b70000 W:0:0", "P H:1:5:GET:/b70000 W:1:%d" % IMAX, "P W:0:%d" % IMAX, "P W:0:%d W:0:1" % (IMAX - 65535),
        "P S:4=%d H:1:5:GET:/b100 H:3:5:GET:/b70000 S:4=0 S:4=%d W:0:70000" % (IMAX, IMAX),
        "P S:4=100 H:1:5:GET:/b1000 S:4=30000,4=4096 W:1:%d" % BIG,
        "P S:4=100 H:1:5:GET:/b50000 S:4=0,4=30000,4=4096 W:1:10 W:1:%d" % BIG,
    ]
    cases += fixed; dist["fixed"] = len(fixed)
    sizes = [0, 1, 2047, 2048, 2049, 16384, 32750, 32751, 65534, 65535, 65536, 65537, 70000, 131070, 131071, 131072, 200000]
    incs = [0, 1, 2, 2047, 2048, 16384, 65535, 65536, IMAX, IMAX - 65535, IMAX - 65536, 100000]
    iwss = [0, 1, 2047, 2048, 65534, 65535, 65536, 100000, IMAX, IMAX + 1, 4096, 30000]
    for _ in range(30000 if thorough else 4000):
        acts = ["P"]
        if rng.random() < 0.5: acts.append("SA")
        nstreams = 0; sid = 1; sids = []
        total = 0
        for _ in range(rng.randrange(2, 12)):
            r = rng.random()
            if r < 0.3 and nstreams < 8:
                n = rng.choice(sizes) if rng.random() < 0.8 else rng.randrange(0, 140000)
                if total + n > 600000: continue
                total += n
                acts.append("H:%d:5:GET:/b%d" % (sid, n)); sids.append(sid); sid += 2; nstreams += 1
            elif r < 0.55:
                acts.append("W:0:%d" % rng.choice(incs))
            elif r < 0.8 and sids:
                acts.append("W:%d:%d" % (rng.choice(sids + [sid + 2] * (rng.random() < 0.03)), rng.choice(incs)))
            elif r < 0.86 and sids and rng.random() < 0.6:
                # the client cancels a stream (open, finished, or - rarely - one it never opened)
                acts.append("R:%d:%d" % (rng.choice(sids + [sid + 2] * (rng.random() < 0.05) + [0] * (rng.random() < 0.03)), rng.choice([8, 8, 0, 5])))
            elif r < 0.95:
                ps = ["4=%d" % rng.choice(iwss) for _ in range(rng.choice([1, 1, 1, 2, 3]))]
                if rng.random() < 0.15: ps.insert(rng.randrange(len(ps) + 1), "5=%d" % rng.choice([16384, 16385, 20000, 16383, 65536]))
                if rng.random() < 0.05: ps.append("2=%d" % rng.choice([0, 1, 2]))
                acts.append("S:" + ",".join(ps))
            else:
                acts.append("G")
        # finally grant ample credit everywhere: every stalled response must complete
        if rng.random() < 0.8:
            tail = ["W:%d:%d" % (s, BIG) for s in sids] + ["W:0:%d" % BIG]
            rng.shuffle(tail)
            acts += tail
        cases.append(" ".join(acts)); dist["send"] += 1
    # uploads: a client that respects the advertised windows (frames <= 16384, never more outstanding than the initial windows)
    for _ in range(4000 if thorough else 600):
        acts = ["P", "SA", "H:1:4:POST:/u"]
        n = rng.choice([1, 16384, 65535, 65536, 65537, 100000, 196608, 196609, 262144, 300000, 500000])
        padded = rng.random() < 0.35
        left = n
        while left > 0:
            ln = min(left, rng.choice([1, 100, 8192, 16384, 16384, 16000]))
            if padded:
                pad = rng.choice([0, 1, 100, 255]); ln = min(ln, 16384 - 1 - pad)
                acts.append("D:1:%x:%d:%d" % (8 | (1 if left == ln else 0), ln, pad))
            else:
                acts.append("D:1:%x:%d" % (1 if left == ln else 0, ln))
            left -= ln
            if len(acts) > 240: break
        if left > 0: continue
        cases.append(" ".join(acts)); dist["upload"] += 1
    # heavily padded uploads: the padding consumes window too and must be credited back (RFC 9113 6.1)
    for _ in range(40 if thorough else 8):
        acts = ["P", "SA", "H:1:4:POST:/u"]
        nfr = rng.choice([900, 1200, 1600])
        for i in range(nfr):
            acts.append("D:1:%x:%d:%d" % (8 | (1 if i == nfr - 1 else 0), rng.choice([1, 64, 200]), rng.choice([255, 255, 250])))
        cases.append(" ".join(acts)); dist["upload"] += 1
    ctx.cov["distribution"]["h2flow"] = dist
    return cases


def run(ctx):
    ok = ctx.prove()
    cases = []
    cp = os.path.join(vlib.VERIF, "corpus", "C06.txt")
    if os.path.exists(cp):
        cases += [l.strip() for l in open(cp) if l.strip() and not l.startswith("#")]
    cases += gen_cases(ctx)
    exe = vlib.cc_harness(ctx, "h2_h", link_srcs=LINK, sanitize=(ctx.tier == "thorough"))
    model = vlib.model_driver("C06")
    rc_i, out_i, err_i = vlib.run_lines_sharded(exe, cases)
    out_i = [canon(x) for x in out_i]
    rc_m, out_m, err_m = vlib.run_lines_sharded(model, cases)
    ctx.cov["evaluations"] += len(cases)
    if rc_i != 0:
        ctx.violate("h2flow-harness-crash", "h2_h exited with %d: %s" % (rc_i, err_i[-800:]), dict(kind="crash", stderr=err_i[-3000:]))
    n = min(len(cases), len(out_i), len(out_m))
    oracle = sum(1 for x in out_m if x == "ORACLE")
    dis = [i for i in range(n) if out_m[i] != "ORACLE" and out_i[i] != out_m[i]]
    ctx.cov["correspondence"]["h2flow"] = dict(cases=len(cases), disagreements=len(dis), monitor_only_lines=oracle)
    ctx.cov["distinct_nontrivial"] += len(set(c for c, o in zip(cases, out_i) if " D" in o))
    ctx.cov["rule"] = ("credit histories: SETTINGS_INITIAL_WINDOW_SIZE values {0,1,2047,2048,65534..65536,2^31-1,2^31,...} (several per frame), stream/connection "
                       "WINDOW_UPDATE increments {0,1,2,2047,2048,65535,65536,2^31-1,...}, 1-8 streams with response sizes at window +-1 and multiples; uploads in "
                       "(padded) DATA frames by a window-respecting client; non-trivial = the server emitted DATA")
    found = vlib.judge(ctx, "C06", "h2flow", cases, out_i, out_m, dis, monitor, describe, "h2_h", "H2.H2Flow.step vs h2.c", monitor_oracle=True)
    ctx.add_samples([dict(case=c[:300], impl=o[:300]) for c, o in list(zip(cases, out_i))[:: max(1, len(cases) // 5)]][:5])
    if not ok and not found:
        ctx.proof_broken_violation()


def replay(ctx, path):
    import json, shutil
    obj = json.load(open(path))
    case = obj["replay"].get("case")
    exe = vlib.cc_harness(ctx, "h2_h", link_srcs=LINK)
    model = vlib.model_driver("C06")
    _, oi, _ = vlib.run_lines(exe, [case]); _, om, _ = vlib.run_lines(model, [case])
    oi = [canon(x) for x in oi]
    why = monitor(case, oi[0]) if oi else "no output"
    print("input:", describe(case)); print("impl :", oi); print("model:", om); print("monitor:", why)
    shutil.rmtree(ctx.scratch, ignore_errors=True)
    return 1 if why or (om and om[0] != "ORACLE" and oi != om) else 0
