"""C13 -- connections always end: timeouts, limits, overload recovery, graceful stop.
Model: coq/Conn/*.v ; implementation: the real lighttpd of the working tree with small timeouts, in real time.
Monitor (from the property text): every kind of stalled client is released within its timeout plus one maintenance tick; oversized heads
and bodies are refused (431 / 413); connections beyond server.max-connections wait and are served once load drops; a graceful stop lets
in-flight responses finish intact, serves nothing new and exits within the graceful timeout."""
import json, os, re, signal, socket, struct, sys, threading, time
import vlib, srv, h2c

KA, RD, WR = 2, 3, 5
CONF = r'''
server.feature-flags = ("server.h2proto" => "enable", "server.h2c" => "enable", "server.graceful-shutdown-timeout" => 6)
server.max-keep-alive-idle = %d
server.max-read-idle = %d
server.max-write-idle = %d
server.max-request-field-size = 2048
server.max-request-size = 4
cgi.assign = (".sh" => "/bin/sh")
%s
'''
BIG = b"0123456789abcdef" * 65536 * 8          # 8 MiB


def wait_close(so, limit, read=True):
    """seconds until EOF / reset on so (None if still open after `limit`); with read=False nothing is read from the socket
    (a client that does not take the response), the peer's close is seen through POLLRDHUP / POLLHUP / POLLERR"""
    import select
    t0 = time.time()
    if not read:
        p = select.poll(); p.register(so.fileno(), select.POLLRDHUP | select.POLLHUP | select.POLLERR)
        while time.time() - t0 < limit:
            for fd, ev in p.poll(250):
                if ev & (select.POLLRDHUP | select.POLLHUP | select.POLLERR): return time.time() - t0
        return None
    so.settimeout(0.25)
    while time.time() - t0 < limit:
        try:
            d = so.recv(65536)
            if not d: return time.time() - t0
        except socket.timeout: continue
        except OSError: return time.time() - t0
    return None


def stall_scenarios(s):
    """name -> (model state letter, function(sock) performing the last client action)"""
    port = s.port
    def mk(f):
        so = socket.socket(); so.settimeout(5); so.connect(("127.0.0.1", port)); f(so); return so
    def ka(so):
        so.sendall(b"GET /small.txt HTTP/1.1\r\nHost: h\r\n\r\n"); so.settimeout(3)
        d = b""
        while b"small-file" not in d: d += so.recv(4096)
    def noread(so):
        so.setsockopt(socket.SOL_SOCKET, socket.SO_RCVBUF, 4096)
        so.sendall(b"GET /big.bin HTTP/1.1\r\nHost: h\r\n\r\n")
    def h2idle(so):
        so.sendall(b"PRI * HTTP/2.0\r\n\r\nSM\r\n\r\n" + h2c.frame(4, 0, 0))
    def h2body(so):
        blk = h2c.enc_field(b":method", b"POST") + h2c.enc_field(b":scheme", b"http") + h2c.enc_field(b":authority", b"h") + h2c.enc_field(b":path", b"/cgi/echo.sh")
        so.sendall(b"PRI * HTTP/2.0\r\n\r\nSM\r\n\r\n" + h2c.frame(4, 0, 0) + h2c.frame(1, 4, 1, blk) + h2c.frame(0, 0, 1, b"partial body"))
    def h2noread(so):
        so.setsockopt(socket.SOL_SOCKET, socket.SO_RCVBUF, 4096)
        blk = h2c.enc_field(b":method", b"GET") + h2c.enc_field(b":scheme", b"http") + h2c.enc_field(b":authority", b"h") + h2c.enc_field(b":path", b"/big.bin")
        so.sendall(b"PRI * HTTP/2.0\r\n\r\nSM\r\n\r\n" + h2c.frame(4, 0, 0, struct.pack(">HI", 4, 1 << 24)) + h2c.frame(8, 0, 0, struct.pack(">I", 1 << 28)) + h2c.frame(1, 5, 1, blk))
    return {
        "connect-silent": ("r", lambda: mk(lambda so: None)),
        "partial-request-line": ("r", lambda: mk(lambda so: so.sendall(b"GET /small.txt HT"))),
        "partial-headers": ("r", lambda: mk(lambda so: so.sendall(b"GET /small.txt HTTP/1.1\r\nHost: h\r\nX-A: 1"))),
        "partial-body": ("p", lambda: mk(lambda so: so.sendall(b"POST /cgi/echo.sh HTTP/1.1\r\nHost: h\r\nContent-Length: 1000\r\n\r\n0123456789"))),
        "partial-chunked-body": ("p", lambda: mk(lambda so: so.sendall(b"POST /cgi/echo.sh HTTP/1.1\r\nHost: h\r\nTransfer-Encoding: chunked\r\n\r\n5\r\nhello\r\n"))),
        "keep-alive-idle": ("k", lambda: mk(ka)),
        "response-not-read": ("w", lambda: mk(noread)),
        "h2-idle": ("r", lambda: mk(h2idle)),
        "h2-body-stalled": ("p", lambda: mk(h2body)),
        "h2-response-not-read": ("w", lambda: mk(h2noread)),
    }


def run_stalls(ctx, model, out):
    s = srv.Server(ctx, "stall", CONF % (KA, RD, WR, ""), files={"/small.txt": b"small-file\n", "/big.bin": BIG,
                   "/cgi/echo.sh": b'printf "Content-Type: text/plain\\r\\n\\r\\n"\ncat\n'}, modules=["mod_cgi"]).start()
    try:
        sc = stall_scenarios(s)
        _, mo, _ = vlib.run_lines(model, ["W %s %d %d %d" % (st, KA, RD, WR) for st, _ in sc.values()])
        res = {}
        def one(name, st, f, k):
            try:
                so = f()
                if st == "w":
                    # a client that does not read cannot see the close (the FIN queues behind unsent data): stay silent past the limit, then read everything
                    time.sleep(k + 2.5); so.settimeout(3.0); n = 0
                    try:
                        while True:
                            d = so.recv(262144)
                            if not d: break
                            n += len(d)
                    except OSError: pass
                    so.close(); res[name] = ("given-up", n)
                    return
                t = wait_close(so, k + 6.0); so.close(); res[name] = t
            except OSError as e: res[name] = "error: %s" % e
        ths = [threading.Thread(target=one, args=(n, st, f, int(m))) for (n, (st, f)), m in zip(sc.items(), mo)]
        for t in ths: t.start()
        for t in ths: t.join()
        for (name, (st, f)), m in zip(sc.items(), mo):
            k = int(m); t = res.get(name)
            lim = {"r": RD, "p": RD, "k": KA, "w": WR}[st]
            if name.startswith("h2-") and st != "w": lo, hi = 0.0, k + 2.5      # an HTTP/2 connection may be released earlier (GOAWAY / RST) -- what matters is that it ends
            elif st == "w": lo, hi = lim - 1.2, k + 4.0                          # the write clock starts when the socket buffers are full, not at the client's last byte
            else: lo, hi = k - 1.3, k + 1.6
            out["stalls"][name] = dict(measured=t, model_sweeps=k, window=[lo, hi])
            if isinstance(t, tuple):
                if t[1] >= len(BIG): out["viol"].append(("%s: after %.1f s without reading (write limit %d s) the server still delivered the complete %d-byte response: the connection was never released" % (name, k + 2.5, lim, t[1]), name))
                continue
            if t is None: out["viol"].append(("%s: the stalled connection was still open %.1f s after the client's last byte (limit %d s, model releases it at sweep %d)" % (name, k + 6.0, lim, k), name))
            elif isinstance(t, str): out["viol"].append(("%s: %s" % (name, t), name))
            elif t > hi: out["viol"].append(("%s: released after %.1f s, later than the limit (%d s) plus one sweep" % (name, t, lim), name))
            elif t < lo: out["viol"].append(("%s: released after only %.1f s although the limit is %d s" % (name, t, lim), name))
        # limits on heads and bodies
        for nm, raw, want in [("head-too-large", b"GET /small.txt HTTP/1.1\r\nHost: h\r\nX-Big: " + b"a" * 5000 + b"\r\n\r\n", 431),
                              ("body-too-large-cl", b"POST /cgi/echo.sh HTTP/1.1\r\nHost: h\r\nContent-Length: 100000\r\nConnection: close\r\n\r\n" + b"x" * 100000, 413),
                              ("body-too-large-chunked", b"POST /cgi/echo.sh HTTP/1.1\r\nHost: h\r\nTransfer-Encoding: chunked\r\nConnection: close\r\n\r\n" + b"2000\r\n" + b"y" * 8192 + b"\r\n0\r\n\r\n", 413)]:
            try: d = s.roundtrip(raw, timeout=6.0)
            except OSError as e: d = b""
            m = re.match(rb"HTTP/1\.[01] (\d{3})", d)
            out["limits"][nm] = int(m.group(1)) if m else None
            if not m or int(m.group(1)) != want: out["viol"].append(("%s: expected %d, got %r" % (nm, want, d[:40]), nm))
        if not s.alive(): out["viol"].append(("lighttpd died during the stall scenarios: %s" % s.log()[-300:], "crash"))
    finally:
        s.stop()


def run_linger(ctx, out, model):
    """lingering close: the response went out with Connection: close, the server has shut its side down and waits for the client's FIN.  A client
    that never closes must not keep the connection (and its slot under server.max-connections) for ever: the sweep releases it after the linger time"""
    _, mo, _ = vlib.run_lines(model, ["W c %d %d %d" % (KA, RD, WR)])
    k = int(mo[0])
    if k > 12:
        out["linger"] = dict(model_sweeps=k, skipped="linger time above what this scenario waits for"); return
    s = srv.Server(ctx, "linger", CONF % (KA, RD, WR, 'server.max-connections = 4\n'), files={"/small.txt": b"small-file\n"}, modules=[]).start()
    try:
        held = []
        for _ in range(4):
            so = socket.socket(); so.settimeout(3.0); so.connect(("127.0.0.1", s.port))
            so.sendall(b"GET /small.txt HTTP/1.1\r\nHost: h\r\nConnection: close\r\n\r\n")
            d = b""
            try:
                while True:
                    x = so.recv(4096)
                    if not x: break
                    d += x
            except OSError: pass
            held.append(so)                      # response read to the server's FIN; the client does not close
        t0 = time.time()
        pr = socket.socket(); pr.settimeout(0.5); pr.connect(("127.0.0.1", s.port)); pr.sendall(b"GET /small.txt HTTP/1.1\r\nHost: h\r\nConnection: close\r\n\r\n")
        got = None; d = b""
        while time.time() - t0 < k + 7.0:
            try:
                x = pr.recv(4096)
                if x: d += x
                if b"small-file" in d: got = time.time() - t0; break
                if not x: break
            except socket.timeout: continue
            except OSError: break
        out["linger"] = dict(model_sweeps=k, probe_answered_after=got)
        if got is None:
            out["viol"].append(("four clients read their complete 'Connection: close' responses and never closed; %.0f s later (linger time: model releases at sweep %d) their "
                                "connections still hold all of server.max-connections = 4 and a new client is not served" % (k + 7.0, k), "linger-never-released"))
        for so in held + [pr]:
            try: so.close()
            except OSError: pass
    finally:
        s.stop()


def run_admission(ctx, out):
    p2 = srv.free_port()
    s = srv.Server(ctx, "adm", CONF % (KA, RD, WR, 'server.max-connections = 6\n$SERVER["socket"] == "127.0.0.1:%d" { }\n' % p2), files={"/small.txt": b"small-file\n"}, modules=[]).start()
    try:
        held = []
        for _ in range(5):
            so = socket.socket(); so.connect(("127.0.0.1", s.port)); so.sendall(b"GET /small.txt HT"); held.append(so)
        time.sleep(0.3)
        # one slot is left.  Freeze the server, let a sixth stalled client and four complete requests queue up on BOTH listening sockets, thaw it:
        # the two listen-socket events arrive in one poll result, so the second handler runs when the first has just used up the budget
        import signal
        os.kill(s.proc.pid, signal.SIGSTOP)
        late = []
        try:
            so = socket.socket(); so.connect(("127.0.0.1", s.port)); so.sendall(b"GET /small.txt HT"); held.append(so)
            for port in (p2, s.port, p2, s.port):
                so = socket.socket(); so.settimeout(0.05); so.connect(("127.0.0.1", port)); so.sendall(b"GET /small.txt HTTP/1.1\r\nHost: h\r\nConnection: close\r\n\r\n"); late.append(so)
            time.sleep(0.1)
        finally:
            os.kill(s.proc.pid, signal.SIGCONT)
        t0 = time.time(); got = [None] * 4; data = [b""] * 4
        for so in held: so.settimeout(0.0)
        while time.time() - t0 < RD + 9 and any(g is None for g in got):
            for so in list(held):          # a stalled client that sees the server's close goes away (otherwise the server lingers 5 s more for it)
                try:
                    if so.recv(16) == b"": so.close(); held.remove(so)
                except (BlockingIOError, socket.timeout): pass
                except OSError: so.close(); held.remove(so)
            for i, so in enumerate(late):
                if got[i] is not None: continue
                try:
                    d = so.recv(4096)
                    if d: data[i] += d
                    if b"small-file" in data[i] or not d: got[i] = time.time() - t0
                except socket.timeout: pass
                except OSError: got[i] = time.time() - t0
        out["admission"] = dict(answer_times=got)
        early = [g for g, d in zip(got, data) if g is not None and g < 1.0 and b"small-file" in d]
        # one slot was free: at most one of the queued clients may be admitted before a stalled one times out
        if len(early) > 1: out["viol"].append(("%d connections were admitted at once (after %.2f s) when one slot was left under server.max-connections = 6 (five held by stalled clients, five more queued on two listening sockets)" % (len(early), min(early)), "admission-excess"))
        if any(g is None or b"small-file" not in d for g, d in zip(got, data)):
            out["viol"].append(("clients waiting behind a full server were not all served after the stalled connections timed out (%s)" % got, "admission-stall"))
        for so in held + late: so.close()
        if not s.alive(): out["viol"].append(("lighttpd died during the admission scenario", "crash"))
    finally:
        s.stop()


def run_graceful(ctx, out):
    s = srv.Server(ctx, "grace", CONF % (KA, RD, 10, ""), files={"/small.txt": b"small-file\n", "/big.bin": BIG}, modules=[]).start()
    try:
        so = socket.socket(); so.settimeout(10); so.setsockopt(socket.SOL_SOCKET, socket.SO_RCVBUF, 65536); so.connect(("127.0.0.1", s.port))
        so.sendall(b"GET /big.bin HTTP/1.1\r\nHost: h\r\nConnection: close\r\n\r\n")
        data = so.recv(65536)
        s.proc.send_signal(signal.SIGINT); t0 = time.time()
        time.sleep(0.3)
        served_new = None
        try:
            c2 = socket.socket(); c2.settimeout(1.0); c2.connect(("127.0.0.1", s.port)); c2.sendall(b"GET /small.txt HTTP/1.1\r\nHost: h\r\nConnection: close\r\n\r\n")
            d2 = c2.recv(4096); served_new = b"small-file" in d2; c2.close()
        except OSError: served_new = False
        while True:
            try: d = so.recv(262144)
            except OSError: break
            if not d: break
            data += d; time.sleep(0.0005)
        so.close()
        i = data.find(b"\r\n\r\n"); body = data[i + 4:] if i >= 0 else b""
        try: s.proc.wait(8.0); exited = time.time() - t0
        except Exception: exited = None
        out["graceful"] = dict(body_bytes=len(body), served_new=served_new, exit_after=exited)
        if body != BIG: out["viol"].append(("graceful stop: the in-flight download was cut (%d of %d bytes)" % (len(body), len(BIG)), "graceful-cut"))
        if served_new: out["viol"].append(("graceful stop: a connection opened after the signal was still served", "graceful-new"))
        if exited is None: out["viol"].append(("graceful stop: the process had not exited 8 s after the signal (graceful timeout 6 s)", "graceful-exit"))
    finally:
        s.stop()


def run(ctx):
    ok = ctx.prove()
    model = vlib.model_driver("C13")
    srv.build_server(False)
    out = dict(viol=[], stalls={}, limits={}, admission={}, graceful={}, linger={})
    ths = [threading.Thread(target=run_stalls, args=(ctx, model, out)), threading.Thread(target=run_admission, args=(ctx, out)), threading.Thread(target=run_graceful, args=(ctx, out))]
    errs = []
    def guard(t):
        try: t()
        except Exception as e: errs.append(repr(e))
    ths = [threading.Thread(target=guard, args=(f,)) for f in (lambda: run_stalls(ctx, model, out), lambda: run_admission(ctx, out), lambda: run_graceful(ctx, out), lambda: run_linger(ctx, out, model))]
    for t in ths: t.start()
    for t in ths: t.join()
    found = False
    for e in errs:
        ctx.violate("c13-harness", "C13 harness error: %s" % e, dict(kind="harness", error=e), no_input=True); found = True
    for why, key in out["viol"]:
        ctx.violate("c13:" + key, "C13 fails on the implementation: %s" % why, dict(kind="monitor", scenario=key, why=why, measurements={k: out[k] for k in ("stalls", "limits", "admission", "graceful", "linger")})); found = True
    ctx.cov["correspondence"]["timeouts"] = out["stalls"]; ctx.cov["correspondence"]["limits"] = out["limits"]
    ctx.cov["correspondence"]["admission"] = out["admission"]; ctx.cov["correspondence"]["graceful"] = out["graceful"]; ctx.cov["correspondence"]["lingering-close"] = out["linger"]
    n = len(out["stalls"]) + len(out["limits"]) + 2
    ctx.cov["evaluations"] += n; ctx.cov["distinct_nontrivial"] += n
    ctx.cov["rule"] = ("real time, max-keep-alive-idle 2 s / max-read-idle 3 s / max-write-idle 5 s: ten stalled clients (silent after connect, inside the request line, inside the head, "
                       "inside a Content-Length body, inside a chunked body, idle on keep-alive, not reading an 8 MiB response; HTTP/2 idle after SETTINGS, HTTP/2 body without "
                       "END_STREAM, HTTP/2 response not read) each measured against the model's sweep count; 5 KB head (431), 100 KB bodies with Content-Length and chunked (413); "
                       "server.max-connections 6 with all slots held and four clients knocking on two listening sockets; four clients that never close after a 'Connection: close' response, holding all of server.max-connections = 4, against the model's linger sweep; SIGINT during an 8 MiB download")
    if not ok and not found:
        ctx.proof_broken_violation()


def replay(ctx, path):
    import shutil
    print(json.load(open(path))["what"][:600]); print("re-running the scenarios")
    run(ctx)
    n = len(ctx.violations)
    shutil.rmtree(ctx.scratch, ignore_errors=True)
    return 1 if n else 0
