"""C04 -- every HTTP/1.x response is well-formed, correctly delimited and byte-exact.
Model: coq/Resp/*.v ; implementation: the real lighttpd of the working tree (lib/srv.py) serving static files of boundary
sizes and CGI output (with/without Content-Length, buffered/streamed), read over raw sockets -- all at once, slowly, in
pipelines -- optionally with harness/faultio.c preloaded (short writes, EAGAIN, EINTR on every socket write path).
Monitor (from the property text): a strict RFC 9112 response-stream parser + comparison with the bytes on disk."""
import hashlib, json, os, re, socket, time
import vlib, srv, backend
from vlib import hx

SIZES = sorted(set([0, 1, 2, 3, 100] + [b + d for b in (4096, 16384, 32768, 65536, 131072, 524288, 1048576) for d in (-2, -1, 0, 1, 2)]))
QUICK_SIZES = [0, 1, 100, 4095, 4096, 4097, 16383, 16384, 16385, 32768, 65535, 65536, 65537, 131072, 131073, 524289, 1048575, 1048577]

CONF = r'''
index-file.names = ()
cgi.assign = (".sh" => "/bin/sh")
server.network-backend = "%s"
server.stream-response-body = %d
server.max-keep-alive-requests = 100
server.max-write-idle = 30
mimetype.assign = (".bin" => "application/octet-stream", ".txt" => "text/plain")
proxy.server = ("/px/" => (("host" => "127.0.0.1", "port" => %d)))
'''
VARIANTS = [dict(name="writev-s0", backend="writev", stream=0), dict(name="sendfile-s1", backend="sendfile", stream=1),
            dict(name="write-s2", backend="write", stream=2), dict(name="writev-s1", backend="writev", stream=1)]

CGI = {
    # body of N bytes from pattern file, no Content-Length, written in pieces
    "/cgi/nocl.sh": 'printf "Content-Type: text/plain\\r\\n\\r\\n"\nn=${QUERY_STRING:-0}\nh=$((n/2))\nhead -c $h "$PAT"\nsleep 0.02\ntail -c +$((h+1)) "$PAT" | head -c $((n-h))\n',
    "/cgi/cl.sh": 'n=${QUERY_STRING:-0}\nprintf "Content-Type: text/plain\\r\\nContent-Length: %d\\r\\n\\r\\n" $n\nhead -c $n "$PAT"\n',
    "/cgi/s204.sh": 'printf "Status: 204\\r\\nContent-Type: text/plain\\r\\n\\r\\nBODY-THAT-MUST-NOT-BE-SENT"\n',
    "/cgi/s205.sh": 'printf "Status: 205\\r\\nContent-Length: 26\\r\\n\\r\\nBODY-THAT-MUST-NOT-BE-SENT"\n',
    "/cgi/s304.sh": 'printf "Status: 304\\r\\nETag: \\"x\\"\\r\\n\\r\\nBODY-THAT-MUST-NOT-BE-SENT"\n',
    "/cgi/big.sh": 'printf "Content-Type: text/plain\\r\\n\\r\\n"\nn=${QUERY_STRING:-0}\ncat "$PAT" | head -c $n\n',
    "/cgi/hdr.sh": 'printf "Content-Type: text/plain\\r\\nX-Echo: %s\\r\\n\\r\\nok" "$QUERY_STRING"\n',
}


def pattern(n):
    out = bytearray()
    h = b"seed"
    while len(out) < n:
        h = hashlib.sha256(h).digest(); out += h
    return bytes(out[:n])


PAT = None


def files():
    global PAT
    if PAT is None: PAT = pattern(1048576 + 16)
    f = {"/f/%d.bin" % n: PAT[:n] for n in SIZES}
    f["/pat"] = PAT
    for k, v in CGI.items(): f[k] = ("PAT=$DOCUMENT_ROOT/pat\n" + v).encode()
    return f


# ------------------------------------------------------------------ strict response-stream parser (RFC 9112)
TOK = rb"[!#$%&'*+\-.^_`|~0-9A-Za-z]+"


class Bad(Exception):
    pass


def parse_stream(data, methods, closed):
    """data: every byte received on one connection; methods: request methods in order.  Returns list of
    (status, headers, body, frame, keep); raises Bad(why) when the stream is not a well-formed sequence of responses."""
    pos = 0; out = []
    for idx, meth in enumerate(methods):
        if pos >= len(data):
            break
        while True:   # 1xx interim responses are skipped
            m = re.compile(rb"HTTP/1\.([01]) (\d{3}) ([^\r\n]*)\r\n").match(data, pos)
            if not m: raise Bad("response %d: no status line at offset %d: %r" % (idx, pos, data[pos:pos + 60]))
            ver = m.group(1); st = int(m.group(2)); p = m.end(); hs = []
            while True:
                if data[p:p + 2] == b"\r\n": p += 2; break
                hm = re.compile(rb"(" + TOK + rb"):[ \t]*([^\r\n]*?)[ \t]*\r\n").match(data, p)
                if not hm: raise Bad("response %d (%d): malformed header line at offset %d: %r" % (idx, st, p, data[p:p + 80]))
                if any(c < 32 and c != 9 or c == 127 for c in hm.group(2)): raise Bad("response %d: control byte in header value %r" % (idx, hm.group(2)))
                hs.append((hm.group(1).lower(), hm.group(2))); p = hm.end()
                if p > len(data): raise Bad("truncated header block")
            if 100 <= st < 200 and st != 101: pos = p; continue
            break
        h = {}
        for k, v in hs: h.setdefault(k, []).append(v)
        cls = h.get(b"content-length"); te = h.get(b"transfer-encoding")
        if cls and len(set(cls)) > 1: raise Bad("response %d: conflicting Content-Length %r" % (idx, cls))
        if cls and not re.fullmatch(rb"\d+", cls[0]): raise Bad("response %d: Content-Length %r is not a number" % (idx, cls[0]))
        if cls and te: raise Bad("response %d: both Content-Length and Transfer-Encoding" % idx)
        if te and ver == b"0": raise Bad("response %d: Transfer-Encoding in an HTTP/1.0 response" % idx)
        if cls and st in (204,) : raise Bad("response %d: Content-Length in a 204 response" % idx)
        conn = b",".join(h.get(b"connection", [])).lower()
        keep = (b"close" not in conn) if ver == b"1" else (b"keep-alive" in conn)
        if meth == b"HEAD" or st in (204, 304):
            frame = "nobody"; body = b""; pos = p
        elif te:
            if te != [b"chunked"]: raise Bad("response %d: Transfer-Encoding %r" % (idx, te))
            frame = "chunked"; body = b""; q = p
            while True:
                cm = re.compile(rb"([0-9A-Fa-f]+)\r\n").match(data, q)
                if not cm: raise Bad("response %d: bad chunk-size line at offset %d: %r" % (idx, q, data[q:q + 40]))
                n = int(cm.group(1), 16); q = cm.end()
                if n == 0:
                    if data[q:q + 2] != b"\r\n": raise Bad("response %d: last-chunk not followed by CRLF: %r" % (idx, data[q:q + 20]))
                    q += 2; break
                if q + n + 2 > len(data): raise Bad("response %d: chunk of %d bytes truncated (%d available)" % (idx, n, len(data) - q))
                body += data[q:q + n]
                if data[q + n:q + n + 2] != b"\r\n": raise Bad("response %d: chunk data not followed by CRLF" % idx)
                q += n + 2
            pos = q
        elif cls:
            n = int(cls[0]); frame = "len"
            if p + n > len(data): raise Bad("response %d (%d): Content-Length %d but only %d body bytes arrived before the connection %s"
                                           % (idx, st, n, len(data) - p, "closed" if closed else "went quiet"))
            body = data[p:p + n]; pos = p + n
        else:
            frame = "close"; body = data[p:]; pos = len(data)
            if keep: raise Bad("response %d: neither Content-Length nor chunked, yet the connection is kept alive" % idx)
            if not closed: raise Bad("response %d: close-delimited body but the server did not close" % idx)
        out.append((st, h, body, frame, keep))
        if not keep:
            if pos != len(data): raise Bad("response %d announced close but %d more bytes follow: %r" % (idx, len(data) - pos, data[pos:pos + 60]))
            if not closed: raise Bad("response %d announced Connection: close but the connection stayed open" % idx)
            break
    if pos != len(data):
        raise Bad("%d bytes after the last expected response: %r" % (len(data) - pos, data[pos:pos + 60]))
    return out


# ------------------------------------------------------------------ requests
def mk_request(rng, sizes):
    kind = rng.choice(["static"] * 6 + ["nocl", "nocl", "cl", "s204", "s205", "s304", "big", "hdr", "missing", "dir", "px-chunked", "px-chunked", "px-chunked",
                       "px-excess", "px-cl", "px-close"])
    meth = rng.choice([b"GET", b"GET", b"GET", b"HEAD"])
    ver = rng.choice([b"1.1", b"1.1", b"1.1", b"1.0"])
    conn = rng.choice([None, None, b"keep-alive", b"close"])
    exp = None; st = 200; cl = None; fins = "1"; script = None
    if kind.startswith("px-"):
        sid = rng.randrange(1, 1 << 30); target = b"/px/r?id=%d" % sid; fins = "01"
        if kind == "px-chunked":
            blocks = [PAT[o:o + n] for o, n in [(rng.randrange(1000), rng.choice([1, 2, 5, 16, 100, 1000, 5000, 40000])) for _ in range(rng.choice([1, 2, 3, 5]))]]
            head = b"HTTP/1.1 200 OK\r\nTransfer-Encoding: chunked\r\nContent-Type: text/plain\r\n\r\n"
            stream = b""; cand = []
            for b in blocks:
                sz = b"%x" % len(b); stream += sz; cand.append(len(stream)); stream += b"\r\n"; cand.append(len(stream))
                stream += b; cand.append(len(stream)); stream += b"\r"; cand.append(len(stream)); stream += b"\n"; cand.append(len(stream))
            stream += b"0\r\n\r\n"
            pts = [len(head) + rng.choice(cand) for _ in range(rng.choice([1, 1, 2, 3]))] + ([rng.randrange(1, len(head) + len(stream))] if rng.random() < 0.3 else [])
            segs = backend.cut(head + stream, pts)
            script = ([(segs[0], 0)] + [(x, 0.03) for x in segs[1:]], rng.choice(["close", "keep"]))
            exp = b"".join(blocks)
        elif kind == "px-excess":
            n = rng.choice([0, 1, 100, 5000]); e = rng.choice([1, 100, 9000, 40000, 70000])
            head = b"HTTP/1.1 200 OK\r\nContent-Length: %d\r\n\r\n" % n
            script = (rng.choice([[(head + PAT[:n] + b"E" * e, 0)], [(head, 0), (PAT[:n] + b"E" * e, 0.03)], [(head + PAT[:n], 0), (b"E" * e, 0.03)]]), "close")
            exp = PAT[:n]; cl = n
        elif kind == "px-cl":
            n = rng.choice([0, 1, 100, 5000, 70000, 300000]); head = b"HTTP/1.1 200 OK\r\nContent-Length: %d\r\n\r\n" % n
            data = head + PAT[:n]; segs = backend.cut(data, [rng.randrange(1, len(data) + 1) for _ in range(rng.choice([0, 1, 2]))])
            script = ([(segs[0], 0)] + [(x, 0.02) for x in segs[1:]], rng.choice(["close", "keep"])); exp = PAT[:n]; cl = n
        else:
            n = rng.choice([0, 1, 100, 5000, 70000]); head = b"HTTP/1.0 200 OK\r\nContent-Type: text/plain\r\n\r\n"
            data = head + PAT[:n]; segs = backend.cut(data, [rng.randrange(1, len(data) + 1) for _ in range(rng.choice([0, 1, 2]))])
            script = ([(segs[0], 0)] + [(x, 0.02) for x in segs[1:]], "close"); exp = PAT[:n]
        return dict(kind=kind, method=meth, ver=ver, conn=conn, target=target, exp=exp, status=st, cl=cl, fins=fins, script=script, sid=sid)
    if kind == "static":
        n = rng.choice(sizes); target = b"/f/%d.bin" % n; exp = PAT[:n]; cl = n
    elif kind == "nocl":
        n = rng.choice([0, 1, 2, 10, 1000, 4096, 70000]); target = b"/cgi/nocl.sh?%d" % n; exp = PAT[:n]; fins = "01"
    elif kind == "big":
        n = rng.choice([100000, 300000, 1048576]); target = b"/cgi/big.sh?%d" % n; exp = PAT[:n]; fins = "01"
    elif kind == "cl":
        n = rng.choice([0, 1, 10, 5000, 100000]); target = b"/cgi/cl.sh?%d" % n; exp = PAT[:n]; cl = n; fins = "01"
    elif kind == "s204": target = b"/cgi/s204.sh"; st = 204; exp = b""; fins = "01"
    elif kind == "s205": target = b"/cgi/s205.sh"; st = 205; exp = b""; cl = 26; fins = "01"
    elif kind == "s304": target = b"/cgi/s304.sh"; st = 304; exp = b""; fins = "01"
    elif kind == "hdr":
        inj = rng.choice([b"a%0d%0aX-Injected:%201", b"x%0aSet-Cookie:%20a=b", b"plain", b"%0d%0a%0d%0aHTTP/1.1%20200%20OK%0d%0a", b"a%00b"])
        target = b"/cgi/hdr.sh?" + inj; exp = b"ok"; fins = "01"
    elif kind == "missing": target = b"/f/none" + rng.choice([b"", b"%0d%0aX-Injected:%201", b"%0aLocation:%20x"]); st = 404; exp = None
    else: target = rng.choice([b"/f", b"/cgi", b"/f%0d%0aX-Injected:%201/.."]); st = 301; exp = None
    return dict(kind=kind, method=meth, ver=ver, conn=conn, target=target, exp=exp, status=st, cl=cl, fins=fins)


def render(rq):
    h = rq["method"] + b" " + rq["target"] + b" HTTP/" + rq["ver"] + b"\r\nHost: h\r\n"
    if rq["conn"]: h += b"Connection: " + rq["conn"] + b"\r\n"
    return h + b"\r\n"


def gen_conn(rng, sizes):
    k = rng.choice([1, 1, 2, 3, 5])
    reqs = [mk_request(rng, sizes) for _ in range(k)]
    mode = rng.choice(["all", "all", "slow", "tiny-rcvbuf", "one-by-one"])
    return dict(reqs=reqs, mode=mode)


def talk(s, conn, timeout=8.0):
    """returns (bytes received, closed?)"""
    reqs = conn["reqs"]; mode = conn["mode"]
    so = socket.socket(); so.settimeout(timeout)
    if mode == "tiny-rcvbuf": so.setsockopt(socket.SOL_SOCKET, socket.SO_RCVBUF, 2048)
    so.connect(("127.0.0.1", s.port))
    data = b""; closed = False
    try:
        if mode == "one-by-one":
            # wait for each response before sending the next request (keep-alive reuse)
            for i, rq in enumerate(reqs):
                so.sendall(render(rq))
                t0 = time.time()
                while time.time() - t0 < timeout:
                    try:
                        parse_stream(data, [r["method"] for r in reqs[:i + 1]], False)
                        if len(data) and count_complete(data, reqs[:i + 1]) >= i + 1: break
                    except Bad: pass
                    try: c = so.recv(65536)
                    except socket.timeout: break
                    if not c: closed = True; break
                    data += c
                if closed: break
        else:
            so.sendall(b"".join(render(rq) for rq in reqs))
        if not closed:
            quiet = 0.6 if mode != "slow" else 1.0
            so.settimeout(quiet)
            t_wait = time.time()
            while True:
                try: c = so.recv(65536 if mode not in ("slow", "tiny-rcvbuf") else 1500)
                except socket.timeout:
                    # nothing at all yet: a loaded machine (or the fault shim's retries) may need longer for the first byte than for the gaps between bytes
                    if not data and time.time() - t_wait < 5.0: continue
                    break
                except ConnectionResetError: closed = True; break
                if not c: closed = True; break
                data += c
                if mode == "slow" and len(data) < 200000: time.sleep(0.002)
                # stop early once every request has been answered and the last response keeps the connection open
                if mode != "slow" and len(data) > 0:
                    try:
                        if count_complete(data, reqs) >= len(reqs): so.settimeout(0.05)
                    except Bad: pass
    finally:
        so.close()
    return data, closed


def count_complete(data, reqs):
    """number of complete responses that cannot grow any more (a close-delimited or closing last response is never 'complete' before EOF)"""
    try: rs = parse_stream(data, [r["method"] for r in reqs], True)
    except Bad: return -1
    if rs and (rs[-1][3] == "close" or not rs[-1][4]): return len(rs) - 1
    return len(rs)


# ------------------------------------------------------------------ judgement of one connection
def judge_conn(conn, data, closed):
    reqs = conn["reqs"]
    try: rs = parse_stream(data, [r["method"] for r in reqs], closed)
    except Bad as e: return str(e), []
    answered = len(rs)
    for i, (rq, (st, h, body, frame, keep)) in enumerate(zip(reqs, rs)):
        if st != rq["status"] and not (rq["kind"] == "dir" and st in (301, 400, 404)) and not (rq["kind"] == "missing" and st in (404, 400)) and not (rq["kind"] == "hdr" and st in (400,)):
            return "response %d: status %d for %s %r (expected %d): responses out of order or wrong resource" % (i, st, rq["method"].decode(), rq["target"], rq["status"]), rs
        if st == rq["status"] and rq["exp"] is not None and rq["method"] != b"HEAD" and body != rq["exp"]:
            k = next((j for j in range(min(len(body), len(rq["exp"]))) if body[j] != rq["exp"][j]), min(len(body), len(rq["exp"])))
            return "response %d to %r: body differs from the resource (%d bytes received, %d expected, first difference at offset %d)" % (i, rq["target"], len(body), len(rq["exp"]), k), rs
        if st == 200 and rq["kind"] == "static" and b"content-length" in h and int(h[b"content-length"][0]) != len(rq["exp"]):
            return "response %d: Content-Length %s for a file of %d bytes" % (i, h[b"content-length"][0], len(rq["exp"])), rs
        for k in h:
            if k in (b"x-injected", b"set-cookie"): return "response %d: request-derived data introduced header %r (target %r)" % (i, k, rq["target"]), rs
    # every request must be answered unless an earlier response closed the connection
    if answered < len(reqs) and (answered == 0 or rs[-1][4]):
        return "%d of %d pipelined requests answered although the last response kept the connection open" % (answered, len(reqs)), rs
    return None, rs


def model_tokens(conn, rs):
    t = []
    for rq, (st, h, body, frame, keep) in zip(conn["reqs"], rs):
        if st != rq["status"] or rq["kind"] in ("missing", "dir"): t.append(None); continue
        kp = 0 if (rq["conn"] == b"close" or (rq["ver"] == b"1.0" and rq["conn"] != b"keep-alive")) else 1
        n = 0 if rq["exp"] is None else min(len(rq["exp"]), 3)
        t.append("m:%d:%d:%d:%s:%d:%d:%s" % (st, rq["method"] == b"HEAD", rq["ver"] == b"1.1", "~" if rq["cl"] is None else str(rq["cl"]), kp, n, rq["fins"]))
    return t


def run_variant(ctx, v, conns, fault_rate, model, sanitize=False):
    be = backend.HttpBackend()
    for c in conns:
        for rq in c["reqs"]:
            if rq.get("script"): be.script(rq["sid"], *rq["script"])
    s = srv.Server(ctx, v["name"] + ("-f%d" % fault_rate), CONF % (v["backend"], v["stream"], be.port), files=files(), modules=["mod_cgi", "mod_proxy"], sanitize=sanitize)
    extra = {}
    if fault_rate:
        so = os.path.join(ctx.scratch, "faultio.so")
        with vlib.Lock("faultio"):
            if not os.path.exists(so):
                rc, out = vlib.sh(["cc", "-shared", "-fPIC", "-O1", "-o", so, os.path.join(vlib.VERIF, "harness", "faultio.c"), "-ldl"], timeout=120)
                if rc != 0: raise vlib.BuildError("faultio.so: " + out[-2000:])
        extra = dict(LD_PRELOAD=so, FAULTIO_RATE=str(fault_rate), FAULTIO_SEED=str(ctx.seed))
    s.start(extra)
    results = []
    try:
        for c in conns:
            try: data, closed = talk(s, c)
            except OSError as e: data, closed = b"<<error %s>>" % str(e).encode(), True
            results.append((data, closed))
            if not s.alive(): break
        alive = s.alive()
    finally:
        rc = s.stop(); be.stop()
    crashed = (not alive) or rc in (98, 99) or (rc is not None and rc < 0 and rc != -15)
    return results, crashed, s.log()[-1500:] + getattr(s, "out", "")[-1500:]


def enc_conn(c):
    return dict(mode=c["mode"], reqs=[dict(kind=r["kind"], method=r["method"].decode(), ver=r["ver"].decode(), conn=None if r["conn"] is None else r["conn"].decode(),
                                            target=r["target"].hex(), status=r["status"], cl=r["cl"], fins=r["fins"], explen=None if r["exp"] is None else len(r["exp"]), exphex=(r["exp"].hex() if r.get("script") and r["exp"] is not None and len(r["exp"]) < 20000 else None),
                                            sid=r.get("sid"), script=None if not r.get("script") else dict(segs=[[d.hex() if len(d) < 20000 else "!%d" % len(d), dl] for d, dl in r["script"][0]], end=r["script"][1])) for r in c["reqs"]])


def dec_conn(j):
    files()
    return dict(mode=j["mode"], reqs=[dict(kind=r["kind"], method=r["method"].encode(), ver=r["ver"].encode(), conn=None if r["conn"] is None else r["conn"].encode(),
                                           target=bytes.fromhex(r["target"]), status=r["status"], cl=r["cl"], fins=r["fins"], exp=None if r["explen"] is None else (bytes.fromhex(r["exphex"]) if r.get("exphex") is not None else PAT[:r["explen"]]),
                                           sid=r.get("sid"), script=None if not r.get("script") else ([(bytes.fromhex(d) if not d.startswith("!") else b"E" * int(d[1:]), dl) for d, dl in r["script"]["segs"]], r["script"]["end"])) for r in j["reqs"]])


# ------------------------------------------------------------------ unit: the escape that keeps a request path inside one header line
def run_encoding_unit(ctx):
    """buffer_append_string_encoded(ENCODING_REL_URI) and http_response_redirect_to_directory() of the working tree against Resp.EncModel
    (the object of the theorems enc_rel_uri_is_visible_ascii / dir_redirect_location_has_no_line_break), and against the clause itself:
    no CR, LF or NUL in the value, and the value decodes back to the path"""
    import urllib.parse
    rng = ctx.rng
    exe = vlib.cc_harness(ctx, "enc_h", link_srcs=vlib.COMMON_SRC, sanitize=(ctx.tier == "thorough"))
    model = vlib.model_driver("C04")
    cases = ["N %s" % vlib.hx(bytes([c])) for c in range(1, 256)] + ["N %s" % vlib.hx(bytes([a, b])) for a in (13, 10, 37, 47, 0x80, 65) for b in (13, 10, 32, 37, 58, 63, 35, 255)]
    frag = [b"/", b"a", b"dir", b"\r\n", b"\r", b"\n", b"X-Injected: 1", b" ", b"%", b"%0d%0a", b"?", b"#", b"\x7f", b"\xc3\xa9", b"\x01", b":", b"//", b"..", b"\t", b"\\", b"\""]
    for _ in range(20000 if ctx.tier == "thorough" else 3000):
        path = b"".join(rng.choice(frag) for _ in range(rng.randrange(1, 8)))
        if rng.random() < 0.5: cases.append("N %s" % vlib.hx(path))
        else:
            ab = rng.random() < 0.5
            cases.append("L %d %s %s %s %s" % (ab, vlib.hx(rng.choice([b"http", b"https"])), vlib.hx(rng.choice([b"h.example", b"h.example:8080", b"[::1]:81"])), vlib.hx(b"/" + path),
                                          vlib.hx(rng.choice([b"", b"", b"q=1", b"a=%0d%0a", b"x y"]))))
    _, out_i, err = vlib.run_lines_sharded(exe, cases)
    _, out_m, _ = vlib.run_lines_sharded(model, cases)
    n = min(len(cases), len(out_i), len(out_m)); dis = 0; bad = 0
    for i in range(n):
        t = cases[i].split()
        v = vlib.unhx(out_i[i]) if out_i[i] not in ("ERR", "?", "~") else None
        why = None
        if v is None: why = "no value (%s)" % out_i[i]
        elif t[0] == "N":
            src = vlib.unhx(t[1])
            if any(c in v for c in b"\r\n\0"): why = "the encoded path contains CR, LF or NUL"
            elif urllib.parse.unquote_to_bytes(v) != src: why = "the encoded path %r does not decode back to %r" % (v, src)
        else:
            if any(c in v for c in b"\r\n\0"): why = "the Location value contains CR, LF or NUL"
        if why:
            bad += 1
            if bad <= 2: ctx.violate("enc:" + cases[i][:40], "C04 fails on the implementation: %s; input %s -> %r" % (why, cases[i][:200], v), dict(kind="enc-unit", case=cases[i], impl=out_i[i], model=out_m[i], why=why))
        elif out_i[i] != out_m[i]:
            dis += 1
            if dis <= 1: ctx.violate("enc-correspondence", "buffer_append_string_encoded / http_response_redirect_to_directory no longer compute Resp.EncModel (e.g. %s: impl=%s model=%s)"
                                     % (cases[i][:120], out_i[i][:120], out_m[i][:120]), dict(kind="enc-unit", correspondence="Resp.EncModel vs buffer.c/http-header-glue.c", case=cases[i], impl=out_i[i], model=out_m[i]), no_input=True)
    ctx.cov["evaluations"] += n
    ctx.cov["correspondence"]["rel-uri-encoding"] = dict(cases=n, disagreements=dis, clause_violations=bad)
    return bool(bad or dis)


def run(ctx):
    ok = ctx.prove()
    model = vlib.model_driver("C04")
    files()
    sizes = QUICK_SIZES if ctx.tier == "quick" else SIZES
    ncon = 70 if ctx.tier == "quick" else 500
    found = False; total_resp = 0; dist = {}; dis_total = 0
    plan = [(v, fr) for v in VARIANTS for fr in ((0, 35) if ctx.tier == "quick" else (0, 20, 60))]
    srv.build_server(False)
    if ctx.tier == "thorough": srv.build_server(True)
    jobs = []
    for v, fr in plan:
        conns = [gen_conn(ctx.rng, sizes) for _ in range(ncon)]
        # every boundary size once per variant, single request, fast reader
        conns += [dict(reqs=[dict(kind="static", method=b"GET", ver=b"1.1", conn=b"close", target=b"/f/%d.bin" % n, exp=PAT[:n], status=200, cl=n, fins="1")], mode="all") for n in sizes]
        jobs.append((v, fr, conns))
    from concurrent.futures import ThreadPoolExecutor
    with ThreadPoolExecutor(max_workers=min(len(jobs), vlib.NCPU)) as ex:
        futs = [ex.submit(run_variant, ctx, v, conns, fr, model, (ctx.tier == "thorough" and fr == 0)) for v, fr, conns in jobs]
        outs = [f.result() for f in futs]
    for (v, fr, conns), (results, crashed, log) in zip(jobs, outs):
        name = "%s%s" % (v["name"], "+faults%d" % fr if fr else "")
        if crashed:
            k = min(len(results), len(conns) - 1)
            ctx.violate("c04-server-crash", "lighttpd (%s) died: %s" % (name, log[-600:]), dict(kind="crash", variant=v["name"], faults=fr, conn=enc_conn(conns[k]), log=log))
            found = True
        mlines = []; judged = []
        for c, (data, closed) in zip(conns, results):
            why, rs = judge_conn(c, data, closed)
            judged.append((why, rs)); total_resp += len(rs)
            toks = model_tokens(c, rs) if not why else []
            mlines.append(" ".join(t for t in toks if t) or "-")
            for (st, h, body, frame, keep) in rs: dist[frame] = dist.get(frame, 0) + 1
        _, mo, _ = vlib.run_lines(model, mlines)
        dis = []
        for i, (c, (why, rs)) in enumerate(zip(conns, judged)):
            if why:
                key = "c04:" + re.sub(r"b'[^']*'|b\"[^\"]*\"|\d+", "#", why)[:60]
                ctx.violate(key, "C04 fails on the implementation (%s, client mode %s): %s" % (name, c["mode"], why),
                            dict(kind="monitor", variant=v["name"], faults=fr, conn=enc_conn(c), why=why, received_head=results[i][0][:400].decode("latin-1")))
                found = True; continue
            toks = model_tokens(c, rs)
            allowed = mo[i].split() if i < len(mo) else []
            k = 0
            for t, (st, h, body, frame, keep) in zip(toks, rs):
                if t is None: continue
                obs = "%s/%s" % (frame, "k" if keep else "c")
                al = allowed[k].split(",") if k < len(allowed) else []
                k += 1
                # a server may always close; what it may not do is keep an undelimited connection open (the parser checks that)
                if obs not in al and not (obs.endswith("/c") and obs[:-1] + "k" in al):
                    dis.append((i, obs, al, t))
        dis_total += len(dis)
        ctx.cov["correspondence"]["framing-" + name] = dict(connections=len(results), responses=sum(len(rs) for _, rs in judged), disagreements=len(dis))
        if dis and not found:
            i, obs, al, t = dis[0]
            ctx.violate("c04-correspondence", "response framing differs from Resp.RespModel.server_emit (%s): observed %s, model allows %s for %s; the strict parser found nothing wrong in %d responses"
                        % (name, obs, al, t, total_resp),
                        dict(kind="correspondence", correspondence="Resp.RespModel.server_emit/rfc_frame vs http_response_write_prepare", variant=v["name"], faults=fr,
                             conn=enc_conn(conns[i]), observed=obs, allowed=al), no_input=True)
            found = True
        ctx.add_samples([dict(variant=name, mode=conns[0]["mode"], requests=[r["target"].decode("latin-1") for r in conns[0]["reqs"]],
                              frames=[f for (_, _, _, f, _) in judged[0][1]])][:1])
    ctx.cov["evaluations"] += total_resp
    ctx.cov["distinct_nontrivial"] += total_resp
    ctx.cov["distribution"] = dict(frames=dist, file_sizes=len(sizes), plans=["%s/faults%d" % (v["name"], fr) for v, fr in plan])
    ctx.cov["rule"] = ("network backends writev/sendfile/write x stream-response-body 0/1/2 x fault rates (faultio.so: short write, EAGAIN, EINTR on write/writev/sendfile/send to sockets) x "
                       "connections of 1-5 pipelined or sequential requests (GET/HEAD, HTTP/1.0/1.1, Connection close/keep-alive/absent) x client read modes (all at once, 1500-byte "
                       "reads with pauses, 2 KiB receive buffer, request-after-response) x resources: static files of %d boundary sizes, CGI output without Content-Length in pieces, "
                       "with Content-Length, 100 KB-1 MiB streams, Status 204/205/304 with a body that must be dropped, percent-encoded CR/LF/NUL in query and path; every byte stream "
                       "is parsed by the strict RFC 9112 reader and every body compared with the resource" % len(sizes))
    if run_encoding_unit(ctx): found = True
    if not ok and not found:
        ctx.proof_broken_violation()


def replay(ctx, path):
    import shutil
    obj = json.load(open(path)); rp = obj["replay"]
    if rp.get("kind") == "enc-unit":
        exe = vlib.cc_harness(ctx, "enc_h", link_srcs=vlib.COMMON_SRC); model = vlib.model_driver("C04")
        _, oi, _ = vlib.run_lines(exe, [rp["case"]]); _, om, _ = vlib.run_lines(model, [rp["case"]])
        print("input:", rp["case"]); print("impl :", oi, [vlib.unhx(x) for x in oi if x not in ("ERR", "?", "~")]); print("model:", om)
        shutil.rmtree(ctx.scratch, ignore_errors=True)
        return 0 if oi == om and oi and not any(c in vlib.unhx(oi[0]) for c in b"\r\n\0") else 1
    if "conn" not in rp:
        print(rp); shutil.rmtree(ctx.scratch, ignore_errors=True); return 1
    c = dec_conn(rp["conn"])
    v = [x for x in VARIANTS if x["name"] == rp.get("variant", VARIANTS[0]["name"])][0]
    model = vlib.model_driver("C04")
    bad = False
    for attempt in range(3):
        results, crashed, log = run_variant(ctx, v, [c], rp.get("faults", 0), model)
        why, rs = judge_conn(c, *results[0]) if results else ("no result", [])
        print("attempt", attempt, "frames:", [(st, f, k) for (st, _, _, f, k) in rs], "monitor:", why, "crashed:", crashed)
        bad = bad or bool(why) or crashed
    shutil.rmtree(ctx.scratch, ignore_errors=True)
    return 1 if bad else 0
