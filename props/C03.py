"""C03 -- access rules cannot be bypassed by respelling URLs or spoofing the client address.
Model: coq/Access/*.v over coq/Url/*.v ; implementation: the real lighttpd of the working tree (lib/srv.py) with mod_access,
mod_auth, mod_authn_file, mod_extforward and a document root of marker files.
Monitor (from the property text): a protected file's marker never reaches a client that is not entitled to it, whatever the
spelling of the URL and whatever forwarded headers an untrusted peer sends."""
import json, os, re
import vlib, srv
from vlib import hx, unhx

MODS = ["mod_access", "mod_auth", "mod_authn_file", "mod_extforward"]
FILES = {
    "/pub/a.txt": "pub-a", "/pub/x.inc": "inc", "/pub/backup~": "tilde", "/pub/s.php": "php", "/pub/dir/d.txt": "pub-d",
    "/priv/p.txt": "priv", "/cond/c.txt": "cond", "/pub/n.sec": "sec", "/ip/i.txt": "ip", "/pub/script.inc": "script", "/pub/t.pl": "pl",
}
DIRS = ["/pub", "/pub/dir", "/priv", "/cond", "/ip"]
NEVER = {"inc", "tilde", "php", "priv", "cond", "script", "pl"}        # no credentials are ever sent
URLCOND = {"cond", "sec", "ip"}                                         # protected by a $HTTP["url"] conditional
IPONLY = {"sec", "ip"}                                                 # only for clients in 10.0.0.0/8
TRUST_EXACT = [b"127.0.0.1"]; TRUST_CIDR = [b"192.168.0.0/16"]

CONF = r'''
index-file.names = ()
url.access-deny = ("~", ".inc")
static-file.exclude-extensions = (".php", ".pl")
auth.backend = "plain"
auth.backend.plain.userfile = "@ROOT@/users"
auth.require = ("/priv/" => ("method" => "basic", "realm" => "r", "require" => "valid-user"))
$HTTP["url"] =^ "/cond/" { url.access-deny = ("") }
$HTTP["url"] =~ "\.sec$" { $HTTP["remoteip"] != "10.0.0.0/8" { url.access-deny = ("") } }
$HTTP["remoteip"] != "10.0.0.0/8" { $HTTP["url"] =^ "/ip/" { url.access-deny = ("") } }
$HTTP["host"] == "secret.example" { url.access-deny = ("") }
extforward.forwarder = ("127.0.0.1" => "trust", "192.168.0.0/16" => "trust")
extforward.headers = (%s)
'''
VARIANTS = [
    dict(name="default", flags=9560, lc=0, top="", hdr='"X-Forwarded-For"', model=True),
    dict(name="lowercase", flags=9560, lc=1, top='server.force-lowercase-filenames = "enable"', hdr='"X-Forwarded-For"', model=True),
    dict(name="required-bs", flags=9464, lc=0, hdr='"X-Forwarded-For"', model=True,
         top='server.http-parseopts = ("url-normalize-required" => "enable", "url-path-2f-decode" => "disable", "url-path-backslash-trans" => "enable")'),
    dict(name="nonorm", flags=0, lc=0, top='server.http-parseopts = ("url-normalize" => "disable")', hdr='"X-Forwarded-For"', model=True),
    dict(name="forwarded", flags=9560, lc=0, top="", hdr='"Forwarded"', model=False),
    # url.access-allow: only the listed suffixes may be served at all (no deny list, no conditional blocks in this configuration)
    dict(name="allow", flags=9560, lc=0, top="", hdr='"X-Forwarded-For"', model=True, allow=[b".txt", b"/"],
         never={"inc", "tilde", "php", "priv", "script", "pl", "sec"}),
]
CONF_ALLOW = r'''
index-file.names = ()
url.access-allow = (".txt", "/")
static-file.exclude-extensions = (".php", ".pl")
auth.backend = "plain"
auth.backend.plain.userfile = "@ROOT@/users"
auth.require = ("/priv/" => ("method" => "basic", "realm" => "r", "require" => "valid-user"))
extforward.forwarder = ("127.0.0.1" => "trust", "192.168.0.0/16" => "trust")
extforward.headers = (%s)
'''
CUR = dict(v=None)


def marker(tag):
    return b"MARKER-" + tag.encode() + b"-END"


# ------------------------------------------------------------------ respelling
def hexenc(rng, c):
    h = "%%%02x" % c
    return (h.upper() if rng.random() < 0.5 else h).encode() if rng.random() < 0.8 else ("%%%X%x" % (c >> 4, c & 15)).encode()


def respell(rng, t, lc):
    """one respelling step on a request-target (bytes); most keep the resource, some try to confuse suffix/prefix matching"""
    path, q, query = t.partition(b"?")
    k = rng.randrange(22)
    idx = [i for i, c in enumerate(path) if c != 0x2f and c != 0x25]
    sl = [i for i, c in enumerate(path) if c == 0x2f]
    if k <= 3 and idx:
        i = rng.choice(idx); path = path[:i] + hexenc(rng, path[i]) + path[i + 1:]
    elif k == 4 and b"." in path:
        i = rng.choice([i for i, c in enumerate(path) if c == 0x2e]); path = path[:i] + rng.choice([b"%2e", b"%2E"]) + path[i + 1:]
    elif k == 5 and sl:
        i = rng.choice(sl); path = path[:i] + rng.choice([b"%2f", b"%2F"]) + path[i + 1:]
    elif k == 6 and sl:
        i = rng.choice(sl); path = path[:i + 1] + rng.choice([b"./", b"x/../", b"../", b"%2e/", b".%2e/", b"%2e%2e/"]) + path[i + 1:]
    elif k == 7 and sl:
        i = rng.choice(sl); path = path[:i] + b"/" + path[i:]
    elif k == 8:
        path = rng.choice([b"/..", b"/.", b"/%2e%2e", b"/x/.."]) + path
    elif k == 9:
        path = path + rng.choice([b"/extra", b"/", b"/a.txt", b"/..", b"/.", b"/x/y", b"//"])
    elif k == 10 and not q:
        q = b"?"; query = rng.choice([b"a=b", b".txt", b"/pub/a.txt", b""])
    elif k == 11:
        al = [i for i, c in enumerate(path) if 97 <= c <= 122 or 65 <= c <= 90]
        if al:
            i = rng.choice(al); path = path[:i] + bytes([path[i] ^ 32]) + path[i + 1:]
    elif k == 12:
        path = path + rng.choice([b"%00", b"%00.txt", b"%0a", b"%7f", b"%20", b".", b"%2e", b";.txt", b"%3b.txt", b"::$DATA", b"%ff"])
    elif k == 13 and sl:
        i = rng.choice(sl); path = path[:i] + rng.choice([b"\\", b"%5c", b"%5C"]) + path[i + 1:]
    elif k == 14 and idx:
        i = rng.choice(idx); path = path[:i] + b"%25" + (b"%02x" % path[i]) + path[i + 1:]
    elif k == 15:
        query = query + b"#frag" if q else query; path = path if q else path + b"#frag"
    elif k == 16 and b"." in path:
        i = rng.choice([i for i, c in enumerate(path) if c == 0x2e]); path = path[:i] + rng.choice([b"%c0%ae", b"%e0%80%ae", b"%u002e"]) + path[i + 1:]
    elif k == 17 and b"~" in path:
        path = path.replace(b"~", rng.choice([b"%7e", b"%7E"]))
    elif k == 18:
        path = path.upper() if rng.random() < 0.5 else path.swapcase()
    elif k == 19:
        path = path + rng.choice([b"/extra", b"/x.txt", b"/a.txt/", b"/%2e%2e/a.txt"])
    return path + q + query


def gen_requests(ctx, variant, n):
    rng = ctx.rng
    bases = list(FILES.keys()) + [d + "/" for d in DIRS] + DIRS + ["/nonexistent", "/pub/none.inc", "/"]
    reqs = []
    for _ in range(n):
        base = rng.choice(bases).encode()
        t = base
        depth = rng.choice([0, 1, 1, 2, 2, 3, 4, 6, 10])
        for _ in range(depth):
            t = respell(rng, t, variant["lc"])
        host = rng.choice([b"www.example", b"www.example", b"www.example", b"secret.example", b"SECRET.example", b"secret.example:80", b"secret.example."])
        absform = rng.random() < 0.05
        peer = rng.choice(["127.0.0.1", "127.0.0.1", "127.0.0.2"])
        xff = None
        x = rng.random()
        if x < 0.5:
            hops = []
            for _ in range(rng.choice([1, 1, 2, 3, 4])):
                hops.append(rng.choice([b"10.1.2.3", b"10.255.0.1", b"1.2.3.4", b"192.168.1.1", b"192.168.77.5", b"127.0.0.1", b"11.0.0.1", b"9.255.255.255",
                                        b"unknown", b"_hidden", b"zz", b"2001:db8::1", b"::1", b"10.1.2.3.4", b"256.1.1.1", b"10.0.0.0"]))
            xff = rng.choice([b", ", b",", b" , "]).join(hops)
        reqs.append(dict(target=t, host=host, peer=peer, xff=xff, base=base.decode(), abs=absform))
    return reqs


def render_http(rq, variant):
    t = rq["target"]
    if rq["abs"]: t = b"http://" + rq["host"] + t
    h = b"GET " + t + b" HTTP/1.1\r\nHost: " + rq["host"] + b"\r\n"
    if rq["xff"] is not None:
        if variant["hdr"] == '"Forwarded"':
            h += b"Forwarded: " + b", ".join(b"for=" + (b'"[' + x + b']"' if b":" in x else x) for x in re.split(rb"\s*,\s*", rq["xff"])) + b"\r\n"
        else:
            h += b"X-Forwarded-For: " + rq["xff"] + b"\r\n"
    return h + b"Connection: close\r\n\r\n"


# ------------------------------------------------------------------ monitor
def trusted_py(a):
    if a in TRUST_EXACT: return True
    m = re.fullmatch(rb"(\d+)\.(\d+)\.(\d+)\.(\d+)", a)
    return bool(m) and m.group(1) == b"192" and m.group(2) == b"168" and all(int(g) < 256 for g in m.groups())


def effective_client(rq):
    """RFC 7239 / de-facto X-Forwarded-For semantics: only a trusted TCP peer may speak for others; then the last hop that is not itself trusted"""
    peer = rq["peer"].encode()
    if rq["xff"] is None or not trusted_py(peer): return peer
    hops = [h.strip() for h in rq["xff"].split(b",")]
    for h in reversed(hops):
        if not trusted_py(h): return h
    return peer


def in10(a):
    """numeric IPv4 in 10.0.0.0/8 (any spelling inet_aton understands: a forwarder's header is trusted for its content)"""
    import socket
    try: return socket.inet_aton(a.decode("ascii"))[0] == 10
    except (OSError, UnicodeDecodeError): return False


def monitor(rq, resp):
    st, hs, body, _ = srv.split_response(resp)
    found = [tag for tag in set(FILES.values()) if marker(tag) in resp]
    cur = CUR["v"] or {}
    for tag in found:
        if "allow" in cur:
            if tag in cur["never"]:
                return "file %r, whose name ends in none of the url.access-allow suffixes (or sits behind auth.require), was sent (status %s) for target %r" % (
                    [k for k, v in FILES.items() if v == tag][0], st, rq["target"])
            continue
        if tag in NEVER:
            return "protected file %r was sent (status %s) for target %r" % ([k for k, v in FILES.items() if v == tag][0], st, rq["target"])
        host = rq["host"].lower().rstrip(b".")
        host = re.sub(rb":\d+$", b"", host).rstrip(b".")
        if host == b"secret.example":
            return "content of the denied host secret.example was sent (%s, Host %r)" % (tag, rq["host"])
        if tag in IPONLY and not in10(effective_client(rq)):
            return ("file %r restricted to 10.0.0.0/8 was sent to client %r (TCP peer %s, forwarded header %r)"
                    % ([k for k, v in FILES.items() if v == tag][0], effective_client(rq), rq["peer"], rq["xff"]))
    return None


def canon_impl(resp, lc):
    st, hs, body, _ = srv.split_response(resp)
    if st == 200:
        for path, tag in FILES.items():
            if marker(tag) in body: return "200:" + hx(path.encode())
        return "200:?"
    return str(st)


# ------------------------------------------------------------------ model line
def model_line(variant, reqs):
    def hl(l): return ",".join(hx(x) for x in l) if l else "~"
    if "allow" in variant:
        t = ["cfg:%d:%d:%s:%s:%s:%s" % (variant["flags"], variant["lc"], "~", hl([b".php", b".pl"]), hl([b"/priv/"]), hl(variant["allow"]))]
    else:
        t = ["cfg:%d:%d:%s:%s:%s" % (variant["flags"], variant["lc"], hl([b"~", b".inc"]), hl([b".php", b".pl"]), hl([b"/priv/"])),
             "blk:P" + hx(b"/cond/"), "blk:S" + hx(b".sec") + "/I", "blk:I/P" + hx(b"/ip/"), "blk:H" + hx(b"secret.example")]
    t += ["fs:%s:%s" % (hl([p.encode() for p in FILES]), hl([d.encode() for d in DIRS])),
         "tr:%s:%s" % (hl(TRUST_EXACT), hl(TRUST_CIDR))]
    for rq in reqs:
        host = rq["host"].lower()
        host = re.sub(rb":\d+$", b"", host)
        if host.endswith(b"."): host = host[:-1]        # request.c host normalisation (port and trailing dot removed, lower case)
        t.append("r:%s:%s:%s:%s" % (hx(rq["target"]), hx(host), hx(rq["peer"].encode()), "~" if rq["xff"] is None else hx(rq["xff"])))
    return " ".join(t)


def canon_model(tok):
    p = tok.split(":")
    return "200:" + p[1] if p[0] == "200" else p[0]


H2STAT = dict(sent=0, answered=0, served=0)


def h2_roundtrip(s, rq, v):
    """the request over h2c from the same source address; rendered like an HTTP/1 response for the monitor; None when HTTP/2 could not carry it"""
    import h2c
    hdrs = []
    if rq["xff"] is not None:
        if v["hdr"] == '"Forwarded"':
            hdrs.append((b"forwarded", b", ".join(b"for=" + (b'"[' + x + b']"' if b":" in x else x) for x in re.split(rb"\s*,\s*", rq["xff"]))))
        else: hdrs.append((b"x-forwarded-for", rq["xff"]))
    try:
        c = h2c.Conn(s.port, src=rq["peer"], timeout=4.0)
        try: st = c.wait([c.send_request(b"GET", rq["target"], headers=hdrs, authority=rq["host"])])[0]
        finally: c.close()
    except Exception:
        return None
    if not st or not st.get("headers"): return None
    return b"HTTP/1.1 " + dict(st["headers"]).get(b":status", b"0") + b" h2\r\n\r\n" + st["body"]


def start_variant(ctx, v, sanitize=False):
    files = {p: marker(t) for p, t in FILES.items()}
    CUR["v"] = v
    s = srv.Server(ctx, v["name"], (CONF_ALLOW if "allow" in v else CONF) % v["hdr"], files=files, modules=MODS, extra_top=v["top"], sanitize=sanitize)
    with open(os.path.join(s.root, "users"), "w") as f: f.write("alice:secret\n")
    return s.start()


def run_variant(ctx, v, reqs, model, sanitize=False):
    s = start_variant(ctx, v, sanitize)
    resps = []; alive = False; mons = []
    try:
        for rq in reqs:
            try: resps.append(s.roundtrip(render_http(rq, v), src=rq["peer"]))
            except OSError as e: resps.append(b"<<error %s>>" % str(e).encode())
            why = monitor(rq, resps[-1])
            klass = None
            if why and v["lc"] and any(marker(t) in resps[-1] for t in URLCOND):
                # is it only the letter case?  the same request spelled in lower case
                low = dict(rq, target=re.sub(rb"%([0-9a-fA-F]{2})", lambda m: bytes([int(m.group(1), 16)]) if bytes([int(m.group(1), 16)]).isalpha() else m.group(0),
                                             rq["target"]).lower())
                try: r2 = s.roundtrip(render_http(low, v), src=rq["peer"])
                except OSError: r2 = b""
                if monitor(low, r2) is None and not any(marker(t) in r2 for t in URLCOND): klass = "url-condition-letter-case"
            if why and klass is None and rq["xff"] is not None and not re.search(rb"[0-9A-Fa-f:]", effective_client(rq)):
                # the hop the trusted peer reported carries no address at all ("unknown"): is that hop simply skipped?  the same chain with a real address in its place
                fixed = dict(rq, xff=b", ".join(b"203.0.113.9" if not re.search(rb"[0-9A-Fa-f:]", h) else h for h in [x.strip() for x in rq["xff"].split(b",")]))
                try: r2 = s.roundtrip(render_http(fixed, v), src=rq["peer"])
                except OSError: r2 = b""
                if monitor(fixed, r2) is None and not any(marker(t) in r2 for t in IPONLY): klass = "xff-hop-without-address-skipped"
                elif v["lc"]:
                    # both recorded deviations at once (upper-case spelling past a url condition AND a skipped hop): undo both
                    both = dict(fixed, target=re.sub(rb"%([0-9a-fA-F]{2})", lambda m: bytes([int(m.group(1), 16)]) if bytes([int(m.group(1), 16)]).isalpha() else m.group(0),
                                                     rq["target"]).lower())
                    try: r3 = s.roundtrip(render_http(both, v), src=rq["peer"])
                    except OSError: r3 = b""
                    if monitor(both, r3) is None and not any(marker(t) in r3 for t in IPONLY): klass = "xff-hop-without-address-skipped"
            if not why and len(resps) % 5 == 0 and rq["target"].startswith(b"/"):
                # the same request over HTTP/2: same protection (monitor) and the same decision as over HTTP/1.1
                r2 = h2_roundtrip(s, rq, v)
                H2STAT["sent"] += 1; H2STAT["answered"] += r2 is not None; H2STAT["served"] += bool(r2 and r2.startswith(b"HTTP/1.1 200"))
                if r2 is not None:
                    why = monitor(rq, r2)
                    if why: why = "over HTTP/2: " + why
                    else:
                        a, b = canon_impl(resps[-1], v["lc"]), canon_impl(r2, v["lc"])
                        if (a.startswith("200:") or b.startswith("200:")) and a != b and not rq["abs"]:
                            why = "HTTP/1.1 and HTTP/2 disagree on the same request: %s over HTTP/1.1, %s over HTTP/2" % (a, b)
            mons.append((why, klass) if why else None)
            if not s.alive(): break
        alive = s.alive()
    finally:
        rc = s.stop()
    # exit status 1 after SIGTERM only means connections were still lingering; sanitizer reports use 98/99 (lib/srv.py)
    crashed = len(resps) < len(reqs) or not alive or rc in (98, 99) or (rc is not None and rc < 0 and rc != -15)
    if crashed: s.out = getattr(s, 'out', '') + ' [exit status %s after %d of %d requests]' % (rc, len(resps), len(reqs))
    mouts = None
    if v["model"]:
        _, mo, _ = vlib.run_lines(model, [model_line(v, reqs)])
        mouts = [canon_model(t) for t in mo[0].split()] if mo else []
        # the request-line parser (C01's model) refuses a target that is neither origin-form nor absolute-form before any of this runs
        mouts = ["400" if not rq["target"].startswith(b"/") else m for rq, m in zip(reqs, mouts)]
    return resps, mouts, crashed, (s.log()[-1500:] + getattr(s, "out", "")[-1500:]), mons


def run(ctx):
    ok = ctx.prove()
    model = vlib.model_driver("C03")
    n = 3000 if ctx.tier == "quick" else 25000
    found = False
    dis_total = 0; served = 0; nreq = 0; dist = {}
    for v in VARIANTS:
        reqs = []
        cp = os.path.join(vlib.VERIF, "corpus", "C03.jsonl")
        if os.path.exists(cp):
            for l in open(cp):
                if l.strip():
                    j = json.loads(l); reqs.append(dict(target=bytes.fromhex(j["target"]), host=bytes.fromhex(j["host"]), peer=j["peer"],
                                                       xff=None if j["xff"] is None else bytes.fromhex(j["xff"]), base=j.get("base", "?"), abs=j.get("abs", False)))
        reqs += gen_requests(ctx, v, n)
        resps, mouts, crashed, log, mons = run_variant(ctx, v, reqs, model, sanitize=(ctx.tier == "thorough"))
        nreq += len(resps)
        if crashed:
            k = min(len(resps), len(reqs) - 1)
            ctx.violate("c03-server-crash", "lighttpd (%s configuration) died while serving %r: %s" % (v["name"], reqs[k]["target"], log[-600:]),
                        dict(kind="crash", variant=v["name"], request=enc_req(reqs[k]), log=log))
            found = True
        dis = []
        for i, (rq, rs) in enumerate(zip(reqs, resps)):
            why, klass = mons[i] if i < len(mons) and mons[i] else (None, None)
            ci = canon_impl(rs, v["lc"])
            dist[ci.split(":")[0]] = dist.get(ci.split(":")[0], 0) + 1
            if ci.startswith("200:"): served += 1
            if why:
                key = "c03:" + ("" if klass == "xff-hop-without-address-skipped" else v["name"] + ":") + (klass or re.sub(r"b'[^']*'|b\"[^\"]*\"|'[^']*'|\d+", "#", why)[:60])
                ctx.violate(key, "C03 fails on the implementation (%s configuration): %s" % (v["name"], why),
                            dict(kind="monitor", variant=v["name"], request=enc_req(rq), response_head=rs[:300].decode("latin-1"), why=why))
                if not any(k == key for k, _ in ctx.known): found = True
            if mouts is not None and i < len(mouts) and not rq["abs"] and ci != mouts[i]:
                dis.append(i)
        dis_total += len(dis)
        ctx.cov["correspondence"]["pipeline-" + v["name"]] = dict(cases=len(resps), disagreements=len(dis), modelled=v["model"])
        if dis and not found:
            i = dis[0]
            ctx.violate("c03-correspondence-" + v["name"], "the server no longer decides as Access.AccessModel.decide (%s configuration; no marker leaked in %d requests): "
                        "target %r host %r peer %s xff %r: impl=%s model=%s" % (v["name"], len(resps), reqs[i]["target"], reqs[i]["host"], reqs[i]["peer"], reqs[i]["xff"],
                                                                                 canon_impl(resps[i], v["lc"]), mouts[i]),
                        dict(kind="correspondence", correspondence="Access.AccessModel.decide vs lighttpd request pipeline", variant=v["name"], request=enc_req(reqs[i]),
                             impl=canon_impl(resps[i], v["lc"]), model=mouts[i], disagreements=len(dis)), no_input=True)
            found = True
        ctx.add_samples([dict(variant=v["name"], target=repr(reqs[i]["target"]), xff=repr(reqs[i]["xff"]), peer=reqs[i]["peer"], impl=canon_impl(resps[i], v["lc"]))
                         for i in range(0, len(resps), max(1, len(resps) // 2))][:2])
    ctx.cov["evaluations"] += nreq
    ctx.cov["distinct_nontrivial"] += served
    ctx.cov["distribution"] = dict(status=dist, served=served, requests=nreq, over_http2=dict(H2STAT))
    ctx.cov["rule"] = ("5 server configurations (default parseopts; force-lowercase-filenames; url-normalize-required + backslash-trans without 2f-decode; url-normalize off; "
                       "Forwarded header) x base URLs (11 marker files behind url.access-deny suffixes, exclude-extensions, auth.require, $HTTP[url] prefix / regex-suffix "
                       "blocks, nested url/remoteip blocks both ways, a $HTTP[host] block; directories; missing files) x respelling chains of depth 0-10 over 20 step kinds "
                       "(percent-encoding any byte in either hex case, %2e/%2f, ./ ../ x/../ segments, doubled slashes, trailing path-info, queries, fragments, letter case, "
                       "NUL/control/DEL/space, backslashes, double encoding, overlong UTF-8, ';' parameters, absolute-form) x Host spellings x TCP peers 127.0.0.1 (trusted) / "
                       "127.0.0.2 (not) x forwarded chains of 1-4 hops (10/8, other, trusted proxies, junk, IPv6); each request on a fresh connection so pooled connection "
                       "objects are reused across peers; non-trivial = a file was served")
    if not ok and not found:
        ctx.proof_broken_violation()


def enc_req(rq):
    return dict(target=rq["target"].hex(), host=rq["host"].hex(), peer=rq["peer"], xff=None if rq["xff"] is None else rq["xff"].hex(), base=rq.get("base"), abs=rq.get("abs", False))


def replay(ctx, path):
    import shutil
    obj = json.load(open(path)); rp = obj["replay"]
    if "request" not in rp:
        print(rp); shutil.rmtree(ctx.scratch, ignore_errors=True); return 1
    j = rp["request"]
    rq = dict(target=bytes.fromhex(j["target"]), host=bytes.fromhex(j["host"]), peer=j["peer"], xff=None if j["xff"] is None else bytes.fromhex(j["xff"]), abs=j.get("abs", False))
    v = [x for x in VARIANTS if x["name"] == rp.get("variant", "default")][0]
    model = vlib.model_driver("C03")
    # the stale-trust scenario needs the connection slot to have served a trusted peer first
    pre = dict(target=b"/pub/a.txt", host=b"www.example", peer="127.0.0.1", xff=b"1.2.3.4", abs=False)
    resps, mouts, crashed, log, mons = run_variant(ctx, v, [pre, rq], model)
    why = monitor(rq, resps[1]) if len(resps) > 1 else "no response"
    ci = canon_impl(resps[1], v["lc"]) if len(resps) > 1 else "?"
    print("request:", rq); print("impl :", ci); print("model:", mouts[1] if mouts and len(mouts) > 1 else None); print("monitor:", why)
    shutil.rmtree(ctx.scratch, ignore_errors=True)
    bad = bool(why) or crashed or (mouts is not None and len(mouts) > 1 and not rq["abs"] and ci != mouts[1])
    return 1 if bad else 0
