(* driver for C16: lines built by props/C16.py from the harness case (+ the cache-key seeds the harness printed) *)
let str_of_bytes l = String.concat "" (List.map (fun c -> String.make 1 (Char.chr (int_of_n c))) l)
let bytes_of_str s = List.init (String.length s) (fun i -> byte_tab.(Char.code s.[i]))
let md5 (b : n list) : n list = bytes_of_str (Digest.string (str_of_bytes b))
let split_on c s = String.split_on_char c s
let parse_db txt =
  List.filter_map (fun l ->
    let l = if String.length l > 0 && l.[String.length l - 1] = '\r' then String.sub l 0 (String.length l - 1) else l in
    if l = "" || l.[0] = '#' then None else
    match String.index_opt l ':' with
    | Some k -> Some (bytes_of_str (String.sub l 0 k), bytes_of_str (String.sub l (k + 1) (String.length l - k - 1)))
    | None -> None) (split_on '\n' txt)
let () = iter_lines (fun line ->
  let toks = split_ws line in
  let seeds = ref [||] and rules = ref [] and cache = ref None in
  let ops = ref [] in
  List.iter (fun tok ->
    let pre p = String.length tok >= String.length p && String.sub tok 0 (String.length p) = p in
    let rest p = String.sub tok (String.length p) (String.length tok - String.length p) in
    if pre "seeds=" then seeds := Array.of_list (List.map int_of_string (List.filter (fun x -> x <> "") (split_on ',' (rest "seeds="))))
    else if pre "rule:" then begin
      match split_on ':' (rest "rule:") with
      | [path; meth; realm; req; _algo; sec] ->
          let reqs = str_of_bytes (bytes_of_hex req) in
          let users = if reqs = "valid-user" then [] else
            List.filter_map (fun a -> if String.length a > 5 && String.sub a 0 5 = "user=" then Some (bytes_of_str (String.sub a 5 (String.length a - 5))) else None) (split_on '|' reqs) in
          let i = List.length !rules in
          rules := !rules @ [{ r_path = bytes_of_hex path; r_digest = (String.lowercase_ascii (str_of_bytes (bytes_of_hex meth)) = "digest");
                               r_realm = bytes_of_hex realm; r_valid_user = (reqs = "valid-user"); r_users = users; r_algo = n_of_int 3;
                               r_secret = opt_of_tok sec; r_seed = n_of_int (if i < Array.length !seeds then !seeds.(i) else 0) }]
      | _ -> () end
    else if pre "cache:" then cache := Some (int_of_string (rest "cache:"))
    else if pre "db:" then ops := OpDb (parse_db (str_of_bytes (bytes_of_hex (rest "db:")))) :: !ops
    else if pre "t:" then (for _ = 1 to int_of_string (rest "t:") do ops := OpTick :: !ops done)
    else if pre "sk:" then ops := OpSkew (z_of_int (int_of_string (rest "sk:"))) :: !ops
    else if pre "q:" then begin
      match split_on ':' (rest "q:") with
      | [m; p; t; a] -> ops := OpReq (bytes_of_hex m, bytes_of_hex p, bytes_of_hex t, opt_of_tok a) :: !ops
      | _ -> () end) toks;
  let cf = { c_rules = !rules; c_cache = (!cache <> None); c_max_age = z_of_int (match !cache with Some a -> a | None -> 0) } in
  let s0 = { s_cache = []; s_mono = z_of_int 1000000; s_epoch = z_of_int 1700000000; s_db = []; g_validated = [] } in
  let (outs, s) = run md5 cf s0 (List.rev !ops) in
  let b = Buffer.create 64 in
  List.iter (fun o -> Buffer.add_string b (match o with
    | Pass -> "P " | Serve (u, d) -> "S:" ^ hex_of_bytes u ^ (if d then ":Digest " else ":Basic ")
    | R401 -> "401 " | R400 -> "400 " | Unmodelled -> "U ")) outs;
  Buffer.add_string b (Printf.sprintf "cache=%d" (if !cache = None then -1 else List.length s.s_cache));
  print_endline (Buffer.contents b))
