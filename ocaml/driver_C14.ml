(* driver for C14: same lines as harness/cond_h.c *)
let cop_of = function 1 -> OpEq | 2 -> OpMatch | 3 -> OpNe | 4 -> OpNoMatch | 5 -> OpPrefix | 6 -> OpSuffix | _ -> OpElse
let nat = nat_of_int
let addr_bytes s = try let a = Unix.inet_addr_of_string s in let raw = (Obj.magic a : string) in
    List.init (String.length raw) (fun i -> byte_tab.(Char.code raw.[i])) with _ -> []
let str_of_bytes l = String.concat "" (List.map (fun c -> String.make 1 (Char.chr (int_of_n c))) l)
let () = iter_lines (fun line ->
  let toks = split_ws line in
  let rec split_at_semi acc = function [] -> (List.rev acc, []) | ";" :: r -> (List.rev acc, r) | x :: r -> split_at_semi (x :: acc) r in
  let (tn, ops) = split_at_semi [] toks in
  let raw = List.map (fun tok -> match String.split_on_char ':' tok with
    | ["n"; p; pv; c; o; s] -> (int_of_string p, int_of_string pv, int_of_string c, int_of_string o, s)
    | _ -> (0, 0, 0, 7, "-")) tn in
  let n = List.length raw in
  let arr = Array.of_list raw in
  let nexts = Array.make (n + 1) 0 and children = Array.make (n + 1) [] in
  Array.iteri (fun i (p, pv, _, _, _) -> let me = i + 1 in children.(p) <- children.(p) @ [me]; if pv > 0 then nexts.(pv) <- me) arr;
  let mknode i (p, pv, c, o, s) =
    (* regex operands: optional ^ prefix and $ suffix around a literal (backslash-escaped dots) *)
    let bytes = bytes_of_hex s in
    let is_re = (o = 2 || o = 4) in
    let strip l = if not is_re then (false, false, l) else begin
      let l1, al = (match l with c :: t when int_of_n c = 94 -> (t, true) | _ -> (l, false)) in
      let rl = List.rev l1 in
      let l2, ar = (match rl with c :: t when int_of_n c = 36 -> (List.rev t, true) | _ -> (l1, false)) in
      let rec unesc = function c :: d :: t when int_of_n c = 92 -> d :: unesc t | c :: t -> c :: unesc t | [] -> [] in
      (al, ar, unesc l2) end in
    let (al, ar, lit) = strip bytes in
    let cidr = if c = 8 && (o = 1 || o = 3) && (match bytes with ch :: _ -> int_of_n ch <> 47 | [] -> true) then begin
        let txt = str_of_bytes bytes in
        match String.index_opt txt '/' with
        | Some k -> Some (addr_bytes (String.sub txt 0 k), nat (int_of_string (String.sub txt (k + 1) (String.length txt - k - 1))))
        | None -> Some (addr_bytes txt, O) end else None in
    { parent = nat p; prev = nat pv; next = nat nexts.(i + 1); children = List.map nat children.(i + 1); comp = nat c; op = cop_of o;
      operand = lit; anch_l = al; anch_r = ar; cidr = cidr } in
  let global = { parent = O; prev = O; next = O; children = List.map nat children.(0); comp = O; op = OpElse; operand = []; anch_l = false; anch_r = false; cidr = None } in
  let tree = global :: List.mapi mknode raw in
  let vals = Hashtbl.create 8 in
  let valid = ref 0xffffffff in
  let attrs () = { aval = (fun k -> try Hashtbl.find vals (int_of_nat k) with Not_found -> []); avalid = (fun k -> (!valid lsr (int_of_nat k)) land 1 = 1);
                   aaddr = addr_bytes (str_of_bytes (try Hashtbl.find vals 8 with Not_found -> [])) } in
  let cache = ref (List.map (fun _ -> { res = Unset; lres = Unset }) tree) in
  let out = Buffer.create 64 in
  let first = ref true in
  let emit s = if not !first then Buffer.add_char out ' '; first := false; Buffer.add_string out s in
  List.iter (fun op -> match String.split_on_char ':' op with
    | ["s"; c; v] -> Hashtbl.replace vals (int_of_string c) (bytes_of_hex v); cache := reset_item tree !cache (nat (int_of_string c))
    | ["S"; c; v] -> Hashtbl.replace vals (int_of_string c) (bytes_of_hex v)
    | ["R"] -> cache := reset_all !cache
    | ["v"; m] -> valid := int_of_string m
    | ["c"; i] -> let (b, c') = check_cond tree (attrs ()) !cache (nat (int_of_string i)) in cache := c'; emit (if b then "1" else "0")
    | ["P"] -> let s = Buffer.create 16 in
               for i = 1 to n do let (b, c') = check_cond tree (attrs ()) !cache (nat i) in cache := c'; Buffer.add_char s (if b then '1' else '0') done;
               emit (if n = 0 then "-" else Buffer.contents s)
    | _ -> ()) ops;
  print_endline (if !first then "-" else Buffer.contents out))
