(* driver for C10:  F <hex stream>  -> DONE <hex> | MORE <hex>      (FastCGI record layer, whole stream)
                    B <L n|C|E> <hex stream> -> COMPLETE <hex> | BROKEN   (body delimiting) *)
let () = iter_lines (fun line ->
  match split_ws line with
  | ["F"; h] -> let s = bytes_of_hex h in
      (match fdecode (nat_of_int (List.length s / 8 + 2)) s [] with
       | FDone o -> print_endline ("DONE " ^ hex_of_bytes o)
       | FMore o -> print_endline ("MORE " ^ hex_of_bytes o))
  | "B" :: fr :: tl ->
      let (frame, h) = match fr, tl with
        | "L", [n; h] -> (BLen (n_of_int (int_of_string n)), h)
        | "C", [h] -> (BChunked, h)
        | _, [h] -> (BEof, h)
        | _ -> (BEof, "-") in
      (match body_verdict frame (bytes_of_hex h) with
       | Complete b -> print_endline ("COMPLETE " ^ hex_of_bytes b)
       | Broken -> print_endline "BROKEN")
  | _ -> print_endline "?")
