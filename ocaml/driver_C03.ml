(* driver for C03: lines built by props/C03.py (configuration, filesystem, trust, requests) *)
let str_of_bytes l = String.concat "" (List.map (fun c -> String.make 1 (Char.chr (int_of_n c))) l)
let hexlist s = if s = "~" then [] else List.map bytes_of_hex (String.split_on_char ',' s)
let v4 s = match List.map int_of_string_opt (String.split_on_char '.' s) with
  | [Some a; Some b; Some c; Some d] when List.for_all (fun x -> x >= 0 && x <= 255) [a; b; c; d] -> Some ((a lsl 24) lor (b lsl 16) lor (c lsl 8) lor d)
  | _ -> None
let rec cond_of s = match String.index_opt s '/' with
  | Some k -> CNest (cond_of (String.sub s 0 k), cond_of (String.sub s (k + 1) (String.length s - k - 1)))
  | None -> (match s.[0] with
      | 'P' -> CUrlPrefix (bytes_of_hex (String.sub s 1 (String.length s - 1)))
      | 'S' -> CUrlSuffix (bytes_of_hex (String.sub s 1 (String.length s - 1)))
      | 'H' -> CHostEq (bytes_of_hex (String.sub s 1 (String.length s - 1)))
      | _ -> CIpNot10)
let () = iter_lines (fun line ->
  let cf = ref { flags = N0; lc = false; allow = []; deny = []; excl = []; auth_prefix = []; blocks = [] } in
  let fs = ref { files = []; dirs = [] } in
  let exact = ref [] and cidrs = ref [] in
  let out = Buffer.create 64 in
  let trusted b =
    let s = str_of_bytes b in
    List.mem s !exact ||
    (match v4 s with
     | Some a -> List.exists (fun (net, bits) -> bits = 0 || (a lsr (32 - bits)) = (net lsr (32 - bits))) !cidrs
     | None -> false) in
  List.iter (fun tok ->
    match String.split_on_char ':' tok with
    | ["cfg"; fl; lc; d; x; a] -> cf := { !cf with flags = n_of_int (int_of_string fl); lc = (lc = "1"); deny = hexlist d; excl = hexlist x; auth_prefix = hexlist a }
    | ["cfg"; fl; lc; d; x; a; al] -> cf := { !cf with flags = n_of_int (int_of_string fl); lc = (lc = "1"); deny = hexlist d; excl = hexlist x; auth_prefix = hexlist a; allow = hexlist al }
    | ["blk"; c] -> cf := { !cf with blocks = !cf.blocks @ [cond_of c] }
    | ["fs"; f; d] -> fs := { files = hexlist f; dirs = hexlist d }
    | ["tr"; e; c] ->
        exact := List.map str_of_bytes (hexlist e);
        cidrs := List.filter_map (fun b -> let s = str_of_bytes b in
                   match String.split_on_char '/' s with
                   | [ip; bits] -> (match v4 ip with Some a -> Some (a, int_of_string bits) | None -> None)
                   | _ -> None) (hexlist c)
    | ["r"; t; h; p; x] ->
        let o = decide trusted !cf !fs (bytes_of_hex t) (bytes_of_hex h) (bytes_of_hex p) (opt_of_tok x) in
        Buffer.add_string out (match o with
          | O400 -> "400 " | O403 -> "403 " | O401 -> "401 " | O404 -> "404 " | O301 -> "301 "
          | O200 (f, pi) -> "200:" ^ hex_of_bytes f ^ ":" ^ hex_of_bytes pi ^ " ")
    | _ -> ()) (split_ws line);
  print_endline (String.trim (Buffer.contents out)))
