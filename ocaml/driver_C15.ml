(* driver for C15: "R flags status meth ar range ifr etag lmod ctype content" -> "status cr ctype clen body"
                   "P len hexrange" -> "n a-b a-b ..." *)
let () = iter_lines (fun line ->
  match split_ws line with
  | "R" :: fl :: st :: m :: ar :: rg :: ifr :: et :: lm :: ct :: content :: _ ->
      let b i = fl.[i] = '1' in
      let inp = { body_finished = b 0; status_in = z_of_int (int_of_string st); meth = n_of_int (int_of_string m);
                  http11 = b 1; allow10 = b 2; te_or_ce = b 3;
                  accept_ranges = opt_of_tok ar; range_hdr = opt_of_tok rg; if_range = opt_of_tok ifr;
                  etag = opt_of_tok et; last_mod = opt_of_tok lm; ctype = opt_of_tok ct;
                  content = bytes_of_hex content } in
      let o = range_rfc7233 inp in
      Printf.printf "%s %s %s %s %s\n" (z_to_string o.status_out) (tok_of_opt o.cr_out) (tok_of_opt o.ctype_out)
        (tok_of_opt o.clen_out) (hex_of_bytes o.body_out)
  | "P" :: len :: rg :: _ ->
      let rs = range_parse (bytes_of_hex rg) (z_of_int (int_of_string len)) in
      Printf.printf "%d%s\n" (List.length rs)
        (String.concat "" (List.map (fun (a, b) -> Printf.sprintf " %s-%s" (z_to_string a) (z_to_string b)) rs))
  | "D" :: lm :: ims :: _ ->
      print_endline (if if_modified_since (z_of_int 123) (bytes_of_hex ims) (z_of_int (int_of_string lm)) then "1" else "0")
  | "M" :: wk :: et :: v :: _ ->
      print_endline (if etag_matches (bytes_of_hex et) (bytes_of_hex v) (wk = "1") then "1" else "0")
  | "E" :: fl :: inm :: ims :: et :: lm :: lmt :: _ ->
      (* http_header_request_set / http_header_response_set with an empty value leave the field unset (glue, as in the request parser) *)
      let o t = match opt_of_tok t with Some [] -> None | x -> x in
      (match cachable (z_of_int 123) (fl.[0] = '1' || fl.[0] = '2') (fl.[1] = '1') (o inm) (o ims) (o et) (o lm) (z_of_int (int_of_string lmt)) with
       | C304 -> print_endline "304" | C412 -> print_endline "412" | CPass -> print_endline "0")
  | _ -> print_endline "?")
