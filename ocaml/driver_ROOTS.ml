(* driver for the Roots model: same commands as harness/roots_h.c (A V E U L) plus the system-level commands X D P of props/roots.py *)
let strip_slashes l = let rec go = function x :: t when int_of_n x = 47 && t <> [] -> go t | r -> r in List.rev (go (List.rev l))
let () = iter_lines (fun line ->
  let toks = Array.of_list (split_ws line) in
  let k = ref 1 in
  let next () = let t = toks.(!k) in incr k; t in
  let nb () = bytes_of_hex (next ()) in
  let nopt () = opt_of_tok (next ()) in
  let nlist () = let n = int_of_string (next ()) in List.init n (fun _ -> nb ()) in
  let npairs () = let n = int_of_string (next ()) in List.init n (fun _ -> let a = nb () in let b = nb () in (a, b)) in
  let udconf () =
    let active = next () = "1" in let path = nopt () in let base = nb () in let letter = next () = "1" in
    let excl = nlist () in
    let incl = if toks.(!k) = "~" then (incr k; None) else Some (nlist ()) in
    { ud_active = active; ud_path = path; ud_base = base; ud_letter = letter; ud_excl = excl; ud_incl = incl } in
  try
  match toks.(0) with
  | "A" -> let basedir = nb () in let path = nb () in let al = npairs () in
      (match alias_remap al basedir path with
       | AliasNone -> Printf.printf "T %s %s\n" (hex_of_bytes path) (hex_of_bytes basedir)
       | Alias403 -> print_endline "403"
       | AliasTo (p, b) -> Printf.printf "T %s %s\n" (hex_of_bytes p) (hex_of_bytes b))
  | "V" -> let sroot = nb () in let host = nopt () in let droot = nopt () in
      print_endline (hex_of_bytes (svh_path sroot host droot))
  | "E" -> let pat = nb () in let auth = nb () in
      (match parse_pattern pat with None -> print_endline "X" | Some ps -> print_endline (hex_of_bytes (evhost_path ps auth)))
  | "U" -> let c = udconf () in let uri = nb () in
      (match userdir c uri with
       | UdNone -> print_endline "N" | UdRedirect -> print_endline "301"
       | UdTo (p, b) -> Printf.printf "T %s %s\n" (hex_of_bytes p) (hex_of_bytes b))
  | "L" -> let name = nb () in let n = int_of_string (next ()) in
      let tbl = List.init n (fun _ -> let p = nb () in let kd = next () in (p, kd = "L")) in
      let lst p = try Some (List.assoc p tbl) with Not_found -> None in
      print_endline (z_to_string (contains_symlink lst name))
  | "X" -> let kind = next () in let u8 = next () = "1" in let roots = nlist () in let p = nb () in
      (match (if kind = "1" then xsendfile else xsendfile2) u8 roots p with
       | Xs502 -> print_endline "502" | Xs403 -> print_endline "403" | Xs400 -> print_endline "400"
       | XsSend q -> Printf.printf "S %s\n" (hex_of_bytes q))
  | "D" -> let u8 = next () = "1" in let scheme = nb () in let auth = nb () in let rel = nb () in let phys = nb () in
      let basedir = nb () in let docroot = nb () in let dest = nb () in
      (match dav_dest u8 scheme auth rel phys basedir docroot dest with
       | DStatus c -> print_endline (string_of_int (int_of_n c))
       | DPath (r, p) -> Printf.printf "P %s %s\n" (hex_of_bytes r) (hex_of_bytes p))
  | "P" -> let flags = n_of_int (int_of_string (next ())) in let strict = next () = "1" in let docroot = nb () in
      let al = npairs () in
      let svh = if toks.(!k) = "~" then (incr k; None) else (let sr = nb () in let dr = nopt () in let dh = nopt () in Some ((sr, dr), dh)) in
      let ev = if toks.(!k) = "~" then (incr k; None) else parse_pattern (nb ()) in
      let ud = if toks.(!k) = "~" then (incr k; None) else Some (udconf ()) in
      let dirs = List.map strip_slashes (nlist ()) in
      let auth = nb () in let target = nb () in
      let isdir p = List.mem (strip_slashes p) dirs in
      (match parse_target flags target with
       | T400 -> print_endline "400"
       | TOk (_, path, _) ->
         let c = { c_docroot = docroot; c_strict = strict; c_alias = al; c_svh = svh; c_ev = ev; c_ud = ud } in
         (match physical isdir c auth path with
          | PhysStatus s -> Printf.printf "%d %s\n" (int_of_n s) (hex_of_bytes path)
          | Phys (dr, b, p) -> Printf.printf "P %s %s %s %s\n" (hex_of_bytes path) (hex_of_bytes dr) (hex_of_bytes b) (hex_of_bytes p)))
  | _ -> print_endline "?"
  with Invalid_argument _ | Failure _ -> print_endline "?")
