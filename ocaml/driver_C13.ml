(* driver for C13:  W <state r|p|w|k|c> <ka> <rd> <wr>  -> the number of silent seconds after which the model's sweep releases the connection
                    (last progress at second 0; answer k means: still there after the sweep of second k-1, gone after the sweep of second k) *)
let () = iter_lines (fun line ->
  match split_ws line with
  | ["W"; stt; ka; rd; wr] ->
      let l = { keep_alive_idle = z_of_int (int_of_string ka); max_read_idle = z_of_int (int_of_string rd); max_write_idle = z_of_int (int_of_string wr); linger = hTTP_LINGER_TIMEOUT } in
      let c = match stt with
        | "k" -> { st = StRead; request_count = z_of_int 2; wait_in = true; read_idle_ts = Z0; write_request_ts = Z0; close_timeout_ts = Z0 }
        | "r" -> { st = StRead; request_count = z_of_int 1; wait_in = true; read_idle_ts = Z0; write_request_ts = Z0; close_timeout_ts = Z0 }
        | "c" -> { st = StClose; request_count = z_of_int 1; wait_in = true; read_idle_ts = Z0; write_request_ts = Z0; close_timeout_ts = Z0 }
        | "p" -> { st = StReadPost; request_count = z_of_int 1; wait_in = true; read_idle_ts = Z0; write_request_ts = Z0; close_timeout_ts = Z0 }
        | _ -> { st = StWrite; request_count = z_of_int 1; wait_in = false; read_idle_ts = Z0; write_request_ts = z_of_int 1; close_timeout_ts = Z0 } in
      let rec go c k = if k > 100 then k else
        let c' = sweep l c (z_of_int k) in
        (match c'.st with StGone -> k | _ -> go c' (k + 1)) in
      print_endline (string_of_int (go c 1))
  | _ -> print_endline "?")
