(* driver for C01: same commands as harness/h1req_h.c *)
let () = iter_lines (fun line ->
  match split_ws line with
  | "H" :: fl :: blk :: _ ->
      (match h1_parse (n_of_int (int_of_string fl)) (bytes_of_hex blk) with
       | H1Inc -> print_endline "INC"
       | H1Blank -> print_endline "BLANK"
       | H1Oracle -> print_endline "ORACLE"
       | H1Rej s -> Printf.printf "R %d\n" (int_of_n s)
       | H1Ok o -> Printf.printf "A %d %d %s %s %s %s %s %d\n" (int_of_z o.o_method) (if o.o_http11 then 1 else 0)
                     (hex_of_bytes o.o_target_orig) (hex_of_bytes o.o_path) (match o.o_query with None -> "-" | Some q -> hex_of_bytes q) (tok_of_opt o.o_host)
                     (z_to_string o.o_rlen) (if o.o_ka then 1 else 0))
  | "C" :: fl :: maxf :: st :: _ ->
      let evs = run_conn (n_of_int (int_of_string fl)) (n_of_int (int_of_string maxf)) (bytes_of_hex st) in
      print_endline (String.concat " | " (List.map (function
        | EvAccept (m, t, b, ka, cut) -> Printf.sprintf "A %d %s %s %d %d" (int_of_z m) (hex_of_bytes t) (hex_of_bytes b) (if ka then 1 else 0) (if cut then 1 else 0)
        | EvReject (s, a) -> Printf.sprintf "R %d %d" (int_of_n s) (int_of_n a)
        | EvIncomplete -> "I"
        | EvOracle -> "O") evs))
  | _ -> print_endline "?")
