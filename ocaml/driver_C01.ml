(* driver for C01: same commands as harness/h1req_h.c *)
let () = iter_lines (fun line ->
  match split_ws line with
  | "H" :: fl :: blk :: _ ->
      (match h1_parse (n_of_int (int_of_string fl)) (bytes_of_hex blk) with
       | H1Inc -> print_endline "INC"
       | H1Blank -> print_endline "BLANK"
       | H1Oracle -> print_endline "ORACLE"
       | H1Rej s -> Printf.printf "R %d\n" (int_of_n s)
       | H1Ok o -> Printf.printf "A %d %d %s %s %s %s %s %d\n" (int_of_z o.o_method) (if o.o_http11 then 1 else 0)
                     (hex_of_bytes o.o_target_orig) (hex_of_bytes o.o_path) (match o.o_query with None -> "-" | Some q -> hex_of_bytes q) (tok_of_opt o.o_host)
                     (z_to_string o.o_rlen) (if o.o_ka then 1 else 0))
  | _ -> print_endline "?")
