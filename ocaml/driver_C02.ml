(* driver for C02/C03: same commands as harness/url_h.c *)
let () = iter_lines (fun line ->
  match split_ws line with
  | "T" :: fl :: tg :: _ ->
      (match parse_target (n_of_int (int_of_string fl)) (bytes_of_hex tg) with
       | T400 -> print_endline "400"
       | TOk (t, p, q) -> Printf.printf "0 %s %s %s\n" (hex_of_bytes t) (hex_of_bytes p) (tok_of_opt q))
  | "N" :: fl :: tg :: _ ->
      (match burl_normalize (n_of_int (int_of_string fl)) (bytes_of_hex tg) with
       | NormReject -> print_endline "-2"
       | NormOk (b, qs) -> Printf.printf "%d %s\n" (int_of_z qs) (hex_of_bytes b))
  | "S" :: s :: _ -> print_endline (hex_of_bytes (simplify (bytes_of_hex s)))
  | "U" :: s :: _ -> print_endline (hex_of_bytes (urldecode_path (bytes_of_hex s)))
  | "J" :: a :: b :: _ -> print_endline (hex_of_bytes (path_join (bytes_of_hex a) (bytes_of_hex b)))
  | _ -> print_endline "?")
