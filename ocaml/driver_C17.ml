(* driver for C17: same operation lines as harness/cq_h.c; prints the same observation format.
   Lines whose fault script makes the number of write calls layout-dependent are answered ORACLE. *)
let fsize = [| 100000; 5000; 10 |]
let files = Array.to_list (Array.mapi (fun k sz -> List.init sz (fun i -> byte_tab.((i * 7 + k * 13 + i / 251) land 255))) fsize)
let z_str z = z_to_string z
let q = Array.make 3 cq_empty
let ndirs = Array.make 3 2
let obs buf =
  Buffer.add_char buf '@';
  for i = 0 to 2 do
    if i > 0 then Buffer.add_char buf '.';
    Buffer.add_string buf (Printf.sprintf "%s.%s.%s" (z_str (cq_length q.(i))) (z_str q.(i).bin) (z_str q.(i).bout))
  done;
  Buffer.add_char buf '=';
  for i = 0 to 2 do
    if i > 0 then Buffer.add_char buf '.';
    Buffer.add_string buf (hex_of_bytes (content files q.(i)))
  done
let script_of s =
  if s = "-" || s = "" then [] else
  List.map (fun t -> match t.[0] with
    | 'F' -> WFull | 'S' -> WShort (nat_of_int (int_of_string (String.sub t 1 (String.length t - 1))))
    | 'I' -> WEintr | 'N' -> WEnospc | _ -> WErr) (String.split_on_char '.' s)
exception Oracle
let () = iter_lines (fun line ->
  match split_ws line with
  | [] -> print_endline "?"
  | t :: ops ->
    let limit = let v = int_of_string t in if v = 0 then 1048576 else v in
    for i = 0 to 2 do q.(i) <- cq_empty; ndirs.(i) <- 2 done;
    let buf = Buffer.create 4096 in
    let failed = ref false in
    (try
      List.iteri (fun idx op ->
        if !failed then raise Oracle;  (* after a surfaced write error the descriptor state of the temp chunks is not modelled *)
        if idx > 0 then Buffer.add_char buf ' ';
        let a = Array.of_list (String.split_on_char ',' op) in
        let qi = if Array.length a > 1 then int_of_string a.(1) else 0 in
        let nat i = nat_of_int (int_of_string a.(i)) in
        let rc = ref 0 in
        let pre = ref "" in
        (match a.(0) with
         | "am" | "an" | "ab" | "gm" -> q.(qi) <- append_mem true q.(qi) (bytes_of_hex a.(2))
         | "af" | "ao" -> q.(qi) <- append_file q.(qi) (nat 2) (nat 3) (nat 4)
         | "ac" -> let r = int_of_string a.(2) in let (d, s) = append_cq q.(qi) q.(r) in q.(qi) <- d; q.(r) <- s
         | "st" -> let r = int_of_string a.(2) in let (d, s) = steal true files q.(qi) q.(r) (nat 3) in q.(qi) <- d; q.(r) <- s
         | "sw" ->
             if Array.length a > 4 && a.(4) <> "-" then raise Oracle;
             let r = int_of_string a.(2) in let (d, s) = steal_tmp files q.(qi) q.(r) (nat 3) in q.(qi) <- d; q.(r) <- s
         | "mt" ->
             let sc = if Array.length a > 3 then script_of a.(3) else [] in
             if first_is_mem q.(qi) && sc <> [] then raise Oracle;
             let q0 = if first_is_mem q.(qi) then spill q.(qi) else q.(qi) in
             let (((ok, q1), _), nd) = mem_to_temp (nat_of_int 200) (nat_of_int limit) (nat_of_int ndirs.(qi)) q0 (bytes_of_hex a.(2)) sc in
             q.(qi) <- q1; ndirs.(qi) <- int_of_nat nd; rc := (if ok then 0 else -1); if not ok then failed := true
         | "mw" -> q.(qi) <- mark_written files q.(qi) (nat 2)
         | "cm" -> (match q.(qi).chunks with
                    | [] -> rc := -9
                    | cs -> if List.for_all (function CMem (_, _) -> true | _ -> false) cs then q.(qi) <- compact_mem q.(qi) (nat 2) else rc := -9)
         | "co" -> (match q.(qi).chunks with CMem (_, _) :: _ -> () | _ -> rc := -9)
         | "pk" -> pre := ":" ^ hex_of_bytes (peek_data files q.(qi) (nat 2))
         | "rd" -> (match read_data files q.(qi) (nat 2) with
                    | Some (d, q1) -> q.(qi) <- q1; pre := ":" ^ hex_of_bytes d
                    | None -> rc := -1; pre := ":-")
         | "sq" -> q.(qi) <- read_squash files q.(qi)
         | "cr" -> q.(qi) <- append_cq_range true files q.(qi) q.(int_of_string a.(2)) (nat 3) (nat 4)
         | "rf" -> q.(qi) <- remove_finished files q.(qi)
         | "re" -> ()
         | "rs" -> q.(qi) <- cq_empty; ndirs.(qi) <- 2
         | _ -> rc := -8);
        Buffer.add_string buf (string_of_int !rc); Buffer.add_string buf !pre; obs buf) ops;
      Buffer.add_string buf " |leak=0.0";
      print_endline (Buffer.contents buf)
    with Oracle -> print_endline "ORACLE"))
