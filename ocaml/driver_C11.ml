(* driver for C11: tokens  bal:rr|lc|hash  n:<hosts>  dt:<secs>  A:<id>  F:<id>  D:<id>  T
   -> per event  d<i> | 503 | 5xx | -   then  loads=<l0,l1,..> active=<0/1..> *)
let () = iter_lines (fun line ->
  let bal = ref RoundRobin and n = ref 3 and dt = ref 2 and evs = ref [] in
  List.iter (fun tok -> match String.split_on_char ':' tok with
    | ["bal"; "rr"] -> bal := RoundRobin | ["bal"; "lc"] -> bal := LeastConnection | ["bal"; "hash"] -> bal := Hash
    | ["n"; x] -> n := int_of_string x | ["dt"; x] -> dt := int_of_string x
    | ["A"; id] -> evs := Arrive (nat_of_int (int_of_string id), Z0) :: !evs
    | ["F"; id] -> evs := ConnectFail (nat_of_int (int_of_string id), Z0) :: !evs
    | ["D"; id] -> evs := Finish (nat_of_int (int_of_string id)) :: !evs
    | ["T"] -> evs := Tick :: !evs
    | _ -> ()) (split_ws line);
  let (os, s) = run !bal (List.init !n (fun i -> z_of_int (i + 1))) (z_of_int !dt) (init (nat_of_int !n)) (List.rev !evs) in
  let b = Buffer.create 64 in
  List.iter (fun o -> Buffer.add_string b (match o with Dispatched i -> "d" ^ string_of_int (int_of_nat i) ^ " " | Unavailable503 -> "503 " | GaveUp5xx -> "5xx " | NoOutcome -> "- ")) os;
  Buffer.add_string b ("loads=" ^ String.concat "," (List.map (fun h -> z_to_string h.h_load) s.hosts));
  Buffer.add_string b (" active=" ^ String.concat "" (List.map (fun h -> if h.h_active then "1" else "0") s.hosts));
  print_endline (Buffer.contents b))
