(* ocaml/conv.ml -- glue shared by all drivers: OCaml ints/strings <-> extracted N/Z/nat/lists. *)
open Model
let rec pos_of_int i = if i = 1 then XH else if i land 1 = 0 then XO (pos_of_int (i lsr 1)) else XI (pos_of_int (i lsr 1))
let n_of_int i = if i = 0 then N0 else Npos (pos_of_int i)
let rec int_of_pos = function XH -> 1 | XO p -> 2 * int_of_pos p | XI p -> 2 * int_of_pos p + 1
let int_of_n = function N0 -> 0 | Npos p -> int_of_pos p
let z_of_int i = if i = 0 then Z0 else if i > 0 then Zpos (pos_of_int i) else Zneg (pos_of_int (-i))
let int_of_z = function Z0 -> 0 | Zpos p -> int_of_pos p | Zneg p -> - (int_of_pos p)
let rec nat_of_int i = if i <= 0 then O else S (nat_of_int (i - 1))
let rec int_of_nat = function O -> 0 | S n -> 1 + int_of_nat n
let byte_tab = Array.init 256 n_of_int
let hexv c = match c with '0'..'9' -> Char.code c - 48 | 'a'..'f' -> Char.code c - 87 | 'A'..'F' -> Char.code c - 55 | _ -> 0
let bytes_of_hex s =
  if s = "-" || s = "~" then [] else begin
    let n = String.length s / 2 in
    let r = ref [] in
    for i = n - 1 downto 0 do
      r := byte_tab.((hexv s.[2*i] lsl 4) lor hexv s.[2*i+1]) :: !r
    done; !r end
let hex_of_bytes l =
  if l = [] then "-" else begin
    let b = Buffer.create 64 in
    List.iter (fun x -> Buffer.add_string b (Printf.sprintf "%02x" (int_of_n x))) l;
    Buffer.contents b end
let opt_of_tok s = if s = "~" then None else Some (bytes_of_hex s)
let tok_of_opt = function None -> "~" | Some l -> hex_of_bytes l
let split_ws s = List.filter (fun x -> x <> "") (String.split_on_char ' ' s)
let rec int64_of_pos = function XH -> 1L | XO p -> Int64.mul 2L (int64_of_pos p) | XI p -> Int64.add (Int64.mul 2L (int64_of_pos p)) 1L
let z_to_string = function Z0 -> "0" | Zpos p -> Int64.to_string (int64_of_pos p) | Zneg p -> "-" ^ Int64.to_string (int64_of_pos p)
let iter_lines f =
  try while true do f (input_line stdin) done with End_of_file -> ()
