(* driver for C05: reads a trace line printed by harness/h2_h.c in trace mode and runs the extracted RFC 9113 tracker
   (H2Legal.legal) over it; prints OK or V<clause number> *)
let z_of_string s = let v = Int64.of_string s in
  let rec pos (i : int64) = if i = 1L then XH else if Int64.rem i 2L = 0L then XO (pos (Int64.div i 2L)) else XI (pos (Int64.div i 2L)) in
  if v = 0L then Z0 else if v > 0L then Zpos (pos v) else Zneg (pos (Int64.neg v))
let () = iter_lines (fun line ->
  try
    let body, fin = match Str.bounded_split (Str.regexp_string " |end ") line 2 with [a; b] -> (a, b) | _ -> (line, "") in
    let alive = try ignore (Str.search_forward (Str.regexp_string "alive=1") fin 0); true with Not_found -> false in
    (* a client frame still incomplete at the end: the connection is not quiescent, the end-of-trace clauses do not apply *)
    let alive = alive && (try ignore (Str.search_forward (Str.regexp_string " cpend=") body 0); false with Not_found -> true) in
    let frames = List.filter_map (fun tok ->
      if String.length tok > 1 && (tok.[0] = 'c' || tok.[0] = 's') && tok.[String.length tok - 1] <> ':' then
        match String.split_on_char '.' (String.sub tok 1 (String.length tok - 1)) with
        | [t; f; s; l; a; a2] ->
            Some { w = (if tok.[0] = 'c' then Cl else Sv); ty = n_of_int (int_of_string t); fl = n_of_int (int_of_string ("0x" ^ f));
                   st = n_of_int (int_of_string s); len = z_of_string l; arg = z_of_string a; arg2 = z_of_string a2 }
        | _ -> None
      else None) (split_ws body) in
    match legal alive frames with
    | None -> print_endline "OK"
    | Some v -> Printf.printf "V%d\n" (int_of_n v)
  with _ -> print_endline "PARSE-ERROR")
