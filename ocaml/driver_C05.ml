(* driver for C05: reads a trace line printed by harness/h2_h.c in trace mode and runs the extracted RFC 9113 tracker
   (H2Legal.legal) over it; prints OK or V<clause number> *)
let z_of_string s = let v = Int64.of_string s in
  let rec pos (i : int64) = if i = 1L then XH else if Int64.rem i 2L = 0L then XO (pos (Int64.div i 2L)) else XI (pos (Int64.div i 2L)) in
  if v = 0L then Z0 else if v > 0L then Zpos (pos v) else Zneg (pos (Int64.neg v))
(* "T <actions>": the frames of the history as the model sees them (H2Trace.trace: the object of the whole-trace theorem), in the harness' notation *)
exception Oracle
let show_frame f = Printf.sprintf "%c%d.%x.%d.%s.%s.%s" (match f.w with Cl -> 'c' | Sv -> 's') (int_of_n f.ty) (int_of_n f.fl) (int_of_n f.st)
                     (z_to_string f.len) (z_to_string f.arg) (z_to_string f.arg2)
let model_trace line =
  try
    let started = ref false in
    let nrst = ref 0 in
    let evs = List.map (fun tok ->
      let a = Array.of_list (String.split_on_char ':' tok) in
      let ev = match a.(0) with
        | "P" -> if !started then raise Oracle; started := true; EvSettings []
        | "S" -> let ps = if Array.length a < 2 || a.(1) = "" then [] else
                   List.map (fun p -> match String.split_on_char '=' p with
                     | [i; v] -> (n_of_int (int_of_string i), z_of_string v) | _ -> raise Oracle) (String.split_on_char ',' a.(1)) in
                 EvSettings ps
        | "SA" -> EvSettingsAck
        | "H" -> if Array.length a <> 5 || a.(2) <> "5" || a.(3) <> "GET" || String.length a.(4) < 3 || String.sub a.(4) 0 2 <> "/b" then raise Oracle;
                 EvHeaders (n_of_int (int_of_string a.(1)), z_of_string (String.sub a.(4) 2 (String.length a.(4) - 2)))
        | "W" -> EvWU (n_of_int (int_of_string a.(1)), z_of_string a.(2))
        | "G" -> EvPing
        | "R" -> if Array.length a <> 3 then raise Oracle;
                 incr nrst; if !nrst > 15 then raise Oracle;      (* the rapid-reset guard (GOAWAY after 17 quick resets) is outside the model *)
                 EvRst (n_of_int (int_of_string a.(1)))
        | _ -> raise Oracle in
      if not !started then raise Oracle; ev) (split_ws line) in
    match trace h2_init evs with
    | None -> print_endline "ORACLE"
    | Some tr -> print_endline (String.concat " " (List.map show_frame tr) ^ (match legal false tr with None -> " |legal" | Some v -> Printf.sprintf " |V%d" (int_of_n v)))
  with Oracle | Failure _ | Invalid_argument _ -> print_endline "ORACLE"
let () = iter_lines (fun line ->
  if String.length line > 2 && String.sub line 0 2 = "T " then model_trace (String.sub line 2 (String.length line - 2)) else
  try
    let body, fin = match Str.bounded_split (Str.regexp_string " |end ") line 2 with [a; b] -> (a, b) | _ -> (line, "") in
    let alive = try ignore (Str.search_forward (Str.regexp_string "alive=1") fin 0); true with Not_found -> false in
    (* a client frame still incomplete at the end: the connection is not quiescent, the end-of-trace clauses do not apply *)
    let alive = alive && (try ignore (Str.search_forward (Str.regexp_string " cpend=") body 0); false with Not_found -> true) in
    let frames = List.filter_map (fun tok ->
      if String.length tok > 1 && (tok.[0] = 'c' || tok.[0] = 's') && tok.[String.length tok - 1] <> ':' then
        match String.split_on_char '.' (String.sub tok 1 (String.length tok - 1)) with
        | [t; f; s; l; a; a2] ->
            Some { w = (if tok.[0] = 'c' then Cl else Sv); ty = n_of_int (int_of_string t); fl = n_of_int (int_of_string ("0x" ^ f));
                   st = n_of_int (int_of_string s); len = z_of_string l; arg = z_of_string a; arg2 = z_of_string a2 }
        | _ -> None
      else None) (split_ws body) in
    match legal alive frames with
    | None -> print_endline "OK"
    | Some v -> Printf.printf "V%d\n" (int_of_n v)
  with _ -> print_endline "PARSE-ERROR")
