(* driver for C20: same commands as harness/map_h.c (match outcomes are given, PCRE2 is the oracle) *)
let caps_of_tok s =
  if s = "-" || s = "" then [] else
  List.map (fun p -> match String.split_on_char '.' p with
                     | [a; b] -> (nat_of_int (int_of_string a), nat_of_int (int_of_string b))
                     | _ -> (O, O)) (String.split_on_char ',' s)
let outcome_of_tok s =
  if s = "N" then NoMatch else if s = "E" then MatchErr
  else Matched (caps_of_tok (String.sub s 1 (String.length s - 1)))
let rec take n l = if n = 0 then [] else match l with [] -> [] | x :: t -> x :: take (n-1) t
let rec drop n l = if n = 0 then l else match l with [] -> [] | _ :: t -> drop (n-1) t
let rec split_calls toks cur acc = match toks with
  | [] -> List.rev (List.rev cur :: acc)
  | "/" :: t -> split_calls t [] (List.rev cur :: acc)
  | x :: t -> split_calls t (x :: cur) acc
let query_of target =
  let rec go = function [] -> None | c :: t -> if int_of_n c = 63 then Some t else go t in go target
let () = iter_lines (fun line ->
  match split_ws line with
  | "B" :: fl :: pre :: tail :: len :: _ ->
      print_endline (hex_of_bytes (burl_append (bytes_of_hex pre) (bytes_of_hex tail) (nat_of_int (int_of_string len)) (n_of_int (int_of_string fl))))
  | "S" :: tmpl :: subj :: caps :: cv :: ccaps :: sch :: au :: port :: path :: q :: _ ->
      let ctx = { k_subject = bytes_of_hex subj; k_caps = caps_of_tok caps;
                  k_cache = (if cv = "~" then None else Some (bytes_of_hex cv, caps_of_tok ccaps));
                  k_scheme = bytes_of_hex sch; k_authority = bytes_of_hex au; k_port = z_of_int (int_of_string port);
                  k_path = bytes_of_hex path; k_query = opt_of_tok q } in
      print_endline (hex_of_bytes (subst ctx (bytes_of_hex tmpl)))
  | "P" :: inp :: sch :: au :: port :: q :: nr :: rest ->
      let input = bytes_of_hex inp in
      let n = int_of_string nr in
      let rec rules i l = if i = 0 then [] else match l with oc :: t :: r -> (outcome_of_tok oc, bytes_of_hex t) :: rules (i-1) r | _ -> [] in
      let mk caps = { k_subject = input; k_caps = caps; k_cache = None; k_scheme = bytes_of_hex sch; k_authority = bytes_of_hex au;
                      k_port = z_of_int (int_of_string port); k_path = input; k_query = opt_of_tok q } in
      (match process mk (rules n rest) with
       | PGoOn None -> print_endline "GOON -1 ~"
       | PGoOn (Some m) -> Printf.printf "GOON %d ~\n" (int_of_nat m)
       | PError -> print_endline "ERR -1 ~"
       | PFinished (m, res) -> Printf.printf "FIN %d %s\n" (int_of_nat m) (hex_of_bytes res))
  | "R" :: tg :: rep :: au :: port :: nr :: rest ->
      let n = int_of_string nr in
      let tmpls = List.map bytes_of_hex (take n rest) in
      let calls = Array.of_list (split_calls (drop n rest) [] []) in
      let oracle k _ =
        let k = int_of_nat k in
        let ocs = if k < Array.length calls then List.filter (fun x -> x <> "-") calls.(k) else [] in
        let rec zip ts os = match ts, os with
          | [], _ -> []
          | t :: tr, o :: orest -> (outcome_of_tok o, t) :: zip tr orest
          | t :: tr, [] -> (NoMatch, t) :: zip tr [] in
        zip tmpls ocs in
      let mk target caps = { k_subject = target; k_caps = caps; k_cache = None; k_scheme = bytes_of_hex "68747470";
                             k_authority = bytes_of_hex au; k_port = z_of_int (int_of_string port); k_path = target; k_query = query_of target } in
      let ((rc, k), t) = rewrite_run (nat_of_int 500) O h_null (nat_of_int (int_of_string rep)) mk (bytes_of_hex tg) oracle in
      Printf.printf "%s %d %s\n" (match rc with RwGoOn -> "GOON" | RwError -> "ERR" | RwComeback -> "COMEBACK") (int_of_nat k) (hex_of_bytes t)
  | _ -> print_endline "?")
