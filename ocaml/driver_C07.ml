(* driver for C07.
   ENC | <block> | <block> ...      spec encoder with a persistent table; block = tokens: r<n> (table size update), f<hexname>.<hexval>.<policy>
        policy: L literal without indexing, N never indexed, I incremental, X prefer a full index match else incremental with name index,
                M name index + literal value without indexing; suffix h = Huffman for the literals
        prints the blocks in hex separated by " | " (or ERR)
   DEC | <hexblock> | cap<n> | <hexblock> ...   spec decoder with a persistent table; prints per block "name.value,name.value" (hex) or ERR *)
let field_str (n, v) = hex_of_bytes n ^ "." ^ hex_of_bytes v
let rec find_idx p i t = match lookup t (n_of_int i) with
  | None -> None
  | Some f -> if p f then Some i else find_idx p (i + 1) t
let blocks_of toks =
  let rec go cur acc = function
    | [] -> List.rev (List.rev cur :: acc)
    | "|" :: t -> go [] (List.rev cur :: acc) t
    | x :: t -> go (x :: cur) acc t in
  match go [] [] toks with [] :: r -> r | r -> r
let () = iter_lines (fun line ->
  match split_ws line with
  | "ENC" :: rest ->
      let t = ref dt_init in
      let out = List.map (fun blk ->
        let resizes = List.filter_map (fun x -> if x.[0] = 'r' then Some (n_of_int (int_of_string (String.sub x 1 (String.length x - 1)))) else None) blk in
        let fields = List.filter (fun x -> x.[0] = 'f') blk in
        let t0 = List.fold_left (fun t n -> match tbl_resize t n with Some t1 -> t1 | None -> t) !t resizes in
        (* choose representations field by field against the evolving table *)
        let tt = ref t0 in
        let frs = List.map (fun x ->
          match String.split_on_char '.' (String.sub x 1 (String.length x - 1)) with
          | [n; v; pol] ->
              let f = (bytes_of_hex n, bytes_of_hex v) in
              let h = String.length pol > 1 && pol.[1] = 'h' in
              let nameidx = match find_idx (fun (n', _) -> n' = fst f) 1 !tt with Some i -> i | None -> 0 in
              let r = (match pol.[0] with
                | 'L' -> RNoIdx (N0, false, h, h)
                | 'N' -> RNoIdx (N0, true, h, h)
                | 'I' -> RIncr (N0, h, h)
                | 'M' -> RNoIdx (n_of_int nameidx, false, h, h)
                | _ -> (match find_idx (fun f' -> f' = f) 1 !tt with
                        | Some i -> RIndexed (n_of_int i)
                        | None -> RIncr (n_of_int nameidx, h, h))) in
              (match enc_field !tt f r with Some (_, t1) -> tt := t1 | None -> ());
              (f, r)
          | _ -> failwith "bad field") fields in
        match encode_block !t resizes (List.map fst frs) (List.map snd frs) with
        | Some (b, t1) -> t := t1; hex_of_bytes b
        | None -> "ERR") (blocks_of rest) in
      print_endline (String.concat " | " out)
  | ("DEC" | "DECL" as mode) :: rest ->
      let decode_block = if mode = "DECL" then decode_block_lenient else decode_block in
      let t = ref dt_init in
      let dead = ref false in
      let need_update = ref false in
      let out = List.filter_map (fun blk ->
        match blk with
        | [x] when String.length x > 3 && String.sub x 0 3 = "cap" ->
            let n = n_of_int (int_of_string (String.sub x 3 (String.length x - 3))) in
            (* the limit the decoder announced.  It is applied at once (as if the encoder had signalled it): whether the encoder
               does signal a reduction (RFC 7541 4.2) is judged separately by the check, so that decoding can go on *)
            ignore need_update;
            t := (match tbl_resize { !t with tcap = n } n with Some t1 -> t1 | None -> !t); None
        | [x] ->
            if !dead then Some "DEAD" else begin
              let b = bytes_of_hex x in
              let first = match b with c :: _ -> int_of_n c | [] -> 0 in
              if !need_update && not (first >= 32 && first < 64) then (dead := true; Some "ERR")
              else begin
                need_update := false;
                match decode_block !t b with
                | Some (fs, t1) -> t := t1; Some (if fs = [] then "-" else String.concat "," (List.map field_str fs))
                | None -> dead := true; Some "ERR"
              end
            end
        | _ -> Some "?") (blocks_of rest) in
      print_endline (String.concat " | " out)
  | _ -> print_endline "?")
