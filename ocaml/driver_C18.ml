(* driver for C18: tokens put:<path>:<content> del:<path> mkcol:<path> copy:<src>:<dst>:<ow>:<d0> move:<src>:<dst>:<ow>   (paths "/a/b" hex)
   -> "<1/0 per op> ; <sorted listing  path=D | path=F:<content hex>>" *)
let str_of_bytes l = String.concat "" (List.map (fun c -> String.make 1 (Char.chr (int_of_n c))) l)
let bytes_of_str s = List.init (String.length s) (fun i -> byte_tab.(Char.code s.[i]))
let path_of h = List.map bytes_of_str (List.filter (fun x -> x <> "") (String.split_on_char '/' (str_of_bytes (bytes_of_hex h))))
let () = iter_lines (fun line ->
  let ops = List.filter_map (fun tok -> match String.split_on_char ':' tok with
    | ["put"; p; c] -> Some (Put (path_of p, bytes_of_hex c))
    | ["del"; p] -> Some (Delete (path_of p))
    | ["mkcol"; p] -> Some (Mkcol (path_of p))
    | ["copy"; s; d; ow; d0] -> Some (Copy (path_of s, path_of d, ow = "1", d0 = "1"))
    | ["move"; s; d; ow] -> Some (Move (path_of s, path_of d, ow = "1"))
    | _ -> None) (split_ws line) in
  let (bs, t) = run [] ops in
  let listing = List.sort compare (List.map (fun (p, n) ->
    "/" ^ String.concat "/" (List.map str_of_bytes p) ^ (match n with Dir -> "=D" | File c -> "=F:" ^ hex_of_bytes c)) t) in
  print_endline (String.concat "" (List.map (fun b -> if b then "1" else "0") bs) ^ " ; " ^ String.concat " " listing))
