(* driver for C06: the action lines of harness/h2_h.c restricted to the flow-control regime
   (P, S:.., SA, H:<sid>:5:GET:/b<N>, W:<sid>:<inc>, G); anything else is answered ORACLE *)
exception Oracle
let zs = z_to_string
let show_out = function
  | OData (s, len, fl) -> Printf.sprintf " D%d.%s.%x" (int_of_n s) (zs len) (int_of_n fl)
  | OHeaders (s, fl) -> Printf.sprintf " H%d.%x" (int_of_n s) (int_of_n fl)
  | ORst (s, c) -> Printf.sprintf " R%d.%d" (int_of_n s) (int_of_n c)
  | OSettingsAck -> " S0.1"
  | OGoaway (l, c) -> Printf.sprintf " A%d.%d" (int_of_n l) (int_of_n c)
  | OPingAck -> " G1"
let z_of_string s = let v = Int64.of_string s in
  let rec pos (i : int64) = if i = 1L then XH else if Int64.rem i 2L = 0L then XO (pos (Int64.div i 2L)) else XI (pos (Int64.div i 2L)) in
  if v = 0L then Z0 else if v > 0L then Zpos (pos v) else Zneg (pos (Int64.neg v))
let () = iter_lines (fun line ->
  let buf = Buffer.create 256 in
  let c = ref h2_init in
  let started = ref false in
  let nrst = ref 0 in
  (try
    List.iteri (fun k tok ->
      if k > 0 then Buffer.add_char buf ' ';
      Buffer.add_string buf (Printf.sprintf "%d:" k);
      let a = Array.of_list (String.split_on_char ':' tok) in
      let ev =
        match a.(0) with
        | "P" -> if !started then raise Oracle;
                 started := true;
                 Buffer.add_string buf (Printf.sprintf " S%s.0 W0.%s" (zs server_settings_len) (zs advertised_conn_window_incr));
                 EvSettings []
        | "S" -> let ps = if Array.length a < 2 || a.(1) = "" then [] else
                   List.map (fun p -> match String.split_on_char '=' p with
                     | [i; v] -> (n_of_int (int_of_string i), z_of_string v) | _ -> raise Oracle) (String.split_on_char ',' a.(1)) in
                 EvSettings ps
        | "SA" -> EvSettingsAck
        | "H" -> if Array.length a <> 5 || a.(2) <> "5" || a.(3) <> "GET" || String.length a.(4) < 3 || String.sub a.(4) 0 2 <> "/b" then raise Oracle;
                 EvHeaders (n_of_int (int_of_string a.(1)), z_of_string (String.sub a.(4) 2 (String.length a.(4) - 2)))
        | "W" -> EvWU (n_of_int (int_of_string a.(1)), z_of_string a.(2))
        | "G" -> EvPing
        | "R" -> if Array.length a <> 3 then raise Oracle;
                 incr nrst; if !nrst > 15 then raise Oracle;      (* the rapid-reset guard (GOAWAY after 17 quick resets) is outside the model *)
                 EvRst (n_of_int (int_of_string a.(1)))
        | _ -> raise Oracle in
      if not !started then raise Oracle;
      (match step !c ev with
       | Unsupported -> raise Oracle
       | Ok (c', o) -> c := c'; List.iter (fun x -> Buffer.add_string buf (show_out x)) o)) (split_ws line);
    Buffer.add_string buf (Printf.sprintf " |end rused=%d alive=%d unparsed=0" (if !c.alive then List.length !c.streams else -1) (if !c.alive then 1 else 0));
    print_endline (Buffer.contents buf)
  with Oracle -> print_endline "ORACLE"))
