(* driver for C09:
   V <method> <version> <target_orig> <path> <pathinfo> <query> <bodylen> <k1> <v1> <k2> <v2> ...   -> request_vars as  k=v k=v ...  (hex)
   E <k1> <v1> ...                                                                                     -> enc_params (hex)
   S <k1> <v1> ... | <body hex>                                                                        -> scgi_request (hex) *)
let rec pairs = function k :: v :: t -> (bytes_of_hex k, bytes_of_hex v) :: pairs t | _ -> []
let () = iter_lines (fun line ->
  match split_ws line with
  | "V" :: m :: ver :: t :: p :: pi :: q :: bl :: hs ->
      let rq = { q_method = bytes_of_hex m; q_version = bytes_of_hex ver; q_target_orig = bytes_of_hex t; q_path = bytes_of_hex p;
                 q_pathinfo = bytes_of_hex pi; q_query = bytes_of_hex q; q_body_len = n_of_int (int_of_string bl); q_headers = pairs hs } in
      print_endline (String.concat " " (List.map (fun (k, v) -> hex_of_bytes k ^ "=" ^ hex_of_bytes v) (request_vars rq)))
  | "E" :: hs -> print_endline (hex_of_bytes (enc_params (pairs hs)))
  | _ -> print_endline "?")
