(* driver for C04: per token  m:<status>:<head>:<ver11>:<cl|~>:<keep>:<len>:<fin options>  -> the set of (frame,keep) the model allows *)
let () = iter_lines (fun line ->
  match split_ws line with
  | ["N"; s] -> print_endline (hex_of_bytes (enc_rel_uri (bytes_of_hex s)))
  | ["L"; ab; sc; au; pa; q] -> print_endline (hex_of_bytes (dir_redirect_location (ab = "1") (bytes_of_hex sc) (bytes_of_hex au) (bytes_of_hex pa) (bytes_of_hex q)))
  | _ ->
  let out = Buffer.create 64 in
  List.iter (fun tok ->
    match String.split_on_char ':' tok with
    | ["m"; st; hd; v11; cl; kp; len; fins] ->
        let n = int_of_string len in
        let blk k = List.init k (fun _ -> n_of_int 120) in
        let splits = if n = 0 then [([], [])] else [([blk n], []); ([], [blk n]); ([blk 1], [blk (n - 1)])] in
        let res = ref [] in
        String.iter (fun f ->
          List.iter (fun (now, later) ->
            let m = { status = n_of_int (int_of_string st); head = (hd = "1"); connect = false; ver11 = (v11 = "1");
                      h_cl = (if cl = "~" then None else Some (n_of_int (int_of_string cl))); h_te = false; h_upg = false;
                      keep = (kp = "1"); finished = (f = '1') } in
            if f = '1' && later <> [] then () else begin
            let w = server_emit m now later in
            let fr = match rfc_frame m w with NoBody -> "nobody" | Len _ -> "len" | Chunked -> "chunked" | UntilClose -> "close" in
            let s = fr ^ "/" ^ (if w.w_keep then "k" else "c") in
            if not (List.mem s !res) then res := s :: !res end) splits) fins;
        Buffer.add_string out (String.concat "," (List.sort compare !res) ^ " ")
    | _ -> ()) (split_ws line);
  print_endline (String.trim (Buffer.contents out)))
