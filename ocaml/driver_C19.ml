(* driver for C19: D <allowed masks a,b,..> <mimetypes hex,..> <min> <maxkb> <status> <head 0/1> <len> <ctype hex|~> <etag hex|~> <ae hex|~> <inm hex|~> <gethead 0/1>
   -> U | N <etag hex> | P | E <label hex> <etag hex|~> *)
let () = iter_lines (fun line ->
  match split_ws line with
  | ["D"; al; mt; mn; mx; st; hd; ln; ct; et; ae; inm; gh] ->
      let cf = { allowed = List.map (fun x -> n_of_int (int_of_string x)) (String.split_on_char ',' al);
                 mimetypes = (if mt = "~" then [] else List.map bytes_of_hex (String.split_on_char ',' mt));
                 min_size = n_of_int (int_of_string mn); max_kb = n_of_int (int_of_string mx); cache_on = true } in
      let r = { status = n_of_int (int_of_string st); is_head = (hd = "1"); has_te = false; has_ce = false; finished = true; len = n_of_int (int_of_string ln);
                ctype = opt_of_tok ct; etag = opt_of_tok et; had_vary = false } in
      print_endline (match decide cf r (opt_of_tok ae) (opt_of_tok inm) (gh = "1") with
        | Untouched -> "U" | NotModified e -> "N " ^ hex_of_bytes e | Precond412 -> "P"
        | Encode (l, e) -> "E " ^ hex_of_bytes l ^ " " ^ tok_of_opt e)
  | _ -> print_endline "?")
